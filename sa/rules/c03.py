"""C03 - datatype descriptions, copies and compatibility verdicts are faithful"""
from sa.core import rule, prop_info
from sa.lib import *  # noqa: F401,F403
from sa.lib import attr_stores, func_calls, enclosing_tries, raised_names, handler_reraises
from sa.model import Model, AnchorMissing, UNKNOWN, kwarg, const_str
from sa.typestate import isinstance_facts
from sa import roles

DT = 'frappy.datatypes'

prop_info(
    'C03',
    'Decided: R1 for every wire type name the keys a datatype exports (extnames of exportable properties + explicit '
    'keys of export_datatype) are all consumed by the rebuild lambda of DATATYPES (nothing falls into the must-ignore '
    '**kwds), every consumed key is forwarded to the constructor, and every key the lambda requires is exported '
    'unconditionally; R2 every copy() override passes member datatypes through .copy() and constructs its own class, '
    'and the classes whose datainfo does not determine them override copy; R3 in every compatible() override a branch '
    'that was written to accept (isinstance guard, no raise) does not fall through into an unconditional raise; R4 '
    'the users of compatible() (Writable, proxy) call it inside handlers that turn a refusal into a configuration error.',
    not_decided='equality of accept/reject behaviour on probe values, subset soundness of limits, grid rounding of scaled limits.')


def _as_lambda(m, mod, v):
    """a table entry as a lambda: a lambda itself, or a module level function whose body is one return statement"""
    if isinstance(v, ast.Lambda):
        return v
    if isinstance(v, ast.Name):
        g = m.functions.get(f'{mod.name}.{v.id}')
        if g is not None and isinstance(g.node, ast.FunctionDef):
            body = [st for st in g.node.body if not (isinstance(st, ast.Expr) and isinstance(st.value, ast.Constant))]
            if len(body) == 1 and isinstance(body[0], ast.Return) and body[0].value is not None:
                lam = ast.Lambda(args=g.node.args, body=body[0].value)
                ast.copy_location(lam, g.node)
                lam.parent = getattr(g.node, 'parent', None)
                return lam
    return None


def _datatypes_table(m):
    """the rebuild table DATATYPES: {type name: lambda}; a dict literal, or a table generated from named builder functions
    (`{f.__name__[len('_build_'):]: f for f in (_build_bool, ...)}`)"""
    mod = m.modules.get(DT)
    expr = mod.consts.get('DATATYPES') if mod else None
    res = {}
    if isinstance(expr, ast.Dict):
        for k, v in zip(expr.keys, expr.values):
            lam = _as_lambda(m, mod, v)
            if isinstance(k, ast.Constant) and lam is not None:
                res[k.value] = lam
    elif isinstance(expr, ast.DictComp) and len(expr.generators) == 1 and isinstance(expr.generators[0].iter, (ast.Tuple, ast.List)) \
            and isinstance(expr.generators[0].target, ast.Name) and isinstance(expr.value, ast.Name) and expr.value.id == expr.generators[0].target.id:
        var = expr.generators[0].target.id
        k = expr.key
        prefix = None
        if isinstance(k, ast.Subscript) and src(k.value) == f'{var}.__name__' and isinstance(k.slice, ast.Slice) and k.slice.upper is None:
            lo = k.slice.lower
            if isinstance(lo, ast.Call) and dotted(lo.func) == 'len' and lo.args and isinstance(lo.args[0], ast.Constant):
                prefix = lo.args[0].value
            elif isinstance(lo, ast.Constant) and isinstance(lo.value, int):
                prefix = lo.value
        elif isinstance(k, ast.Call) and call_attr(k) == 'removeprefix' and src(k.func.value) == f'{var}.__name__' and k.args and isinstance(k.args[0], ast.Constant):
            prefix = k.args[0].value
        if prefix is not None:
            for e in expr.generators[0].iter.elts:
                lam = _as_lambda(m, mod, e)
                if isinstance(e, ast.Name) and lam is not None:
                    n = len(prefix) if isinstance(prefix, str) else prefix
                    res[e.id[n:]] = lam
    if not res:
        raise AnchorMissing('DATATYPES table (dict literal / generated from builder functions) not found in frappy/datatypes.py')
    return mod, res


def _floatargs_keys(m, mod):
    fa = m.functions.get(f'{DT}.floatargs')
    if fa is None:
        return set()
    for n in body_walk(fa.node):
        if isinstance(n, (ast.Set, ast.List, ast.Tuple)) and n.elts and all(isinstance(e, ast.Constant) and isinstance(e.value, str) for e in n.elts):
            return {e.value for e in n.elts}
    for n in ast.walk(fa.node):
        if isinstance(n, ast.Set):
            return {e.value for e in n.elts if isinstance(e, ast.Constant)}
    # the key set may live in a module level constant (frozenset({...}) / set / tuple)
    for n in body_walk(fa.node):
        if isinstance(n, ast.comprehension) and isinstance(n.iter, ast.Name) and n.iter.id in mod.consts:
            e = mod.consts.get(n.iter.id)
            if isinstance(e, ast.Call) and e.args:
                e = e.args[0]
            if isinstance(e, (ast.Set, ast.Tuple, ast.List)):
                return {x.value for x in e.elts if isinstance(x, ast.Constant)}
        if isinstance(n, ast.Compare) and any(isinstance(o, ast.In) for o in n.ops) and isinstance(n.comparators[0], ast.Name):
            e = mod.consts.get(n.comparators[0].id)
            if isinstance(e, ast.Call) and e.args:
                e = e.args[0]
            if isinstance(e, (ast.Set, ast.Tuple, ast.List)):
                return {x.value for x in e.elts if isinstance(x, ast.Constant)}
    return set()


def _type_name_and_keys(m, ci):
    """-> (type name, explicit keys, uses get_info) from the class' own export_datatype"""
    ed = ci.methods.get('export_datatype')
    if ed is None:
        return None
    for n in body_walk(ed.node):
        if isinstance(n, ast.Call) and call_attr(n) == 'get_info':
            t = kwarg(n, 'type')
            if isinstance(t, ast.Constant):
                keys = {k.arg for k in n.keywords if k.arg and k.arg != 'type'}
                # `**self._int_limits()`: the keys of the dict display a helper method of the class returns
                for k in n.keywords:
                    kv = resolved(k.value, ed.node) if k.arg is None and isinstance(k.value, ast.Name) else k.value
                    if k.arg is None and isinstance(kv, ast.Dict) and all(isinstance(kk, ast.Constant) for kk in kv.keys):
                        keys |= {kk.value for kk in kv.keys}
                    if k.arg is None and isinstance(k.value, ast.Call) and isinstance(k.value.func, ast.Attribute) and dotted(k.value.func.value) == 'self' \
                            and m.has_method(ci.qualname, k.value.func.attr):
                        h = m.method(ci.qualname, k.value.func.attr)
                        rets = [r.value for r in body_walk(h.node) if isinstance(r, ast.Return) and r.value is not None]
                        if len(rets) == 1 and isinstance(rets[0], ast.Dict) and all(isinstance(kk, ast.Constant) for kk in rets[0].keys):
                            keys |= {kk.value for kk in rets[0].keys}
                # an override of get_info in the class adds its own explicit keys (super().get_info(min=..., max=...))
                for q in m.mro(ci.qualname):
                    c2 = m.classes.get(q)
                    ov = c2.methods.get('get_info') if c2 is not None and q != DT + '.DataType' and c2.module.name == DT else None
                    if ov is not None:
                        for x in calls_in(ov.node):
                            if call_attr(x) == 'get_info':
                                keys |= {k.arg for k in x.keywords if k.arg and k.arg != 'type'}
                return t.value, keys, True, ed
        if isinstance(n, ast.Dict):
            keys = {k.value for k in n.keys if isinstance(k, ast.Constant)}
            if 'type' in keys:
                tv = [v for k, v in zip(n.keys, n.values) if isinstance(k, ast.Constant) and k.value == 'type'][0]
                if isinstance(tv, ast.Constant):
                    extra = set()
                    # conditional keys  res['optional'] = ...
                    for x in body_walk(ed.node):
                        if isinstance(x, ast.Subscript) and isinstance(x.ctx, ast.Store) and isinstance(x.slice, ast.Constant):
                            extra.add(x.slice.value)
                    return tv.value, (keys - {'type'}) | extra, False, ed
    # the description is put together by a function of the module: `return _nested_datainfo('array', limits, members=self.members)`
    # where the helper builds `{'type': <its parameter>}`; the keys are the constant keys of the dict displays of the method itself
    # and the keywords that land in the helper's ** parameter (it adds them under their names)
    for n in body_walk(ed.node):
        if not (isinstance(n, ast.Call) and isinstance(n.func, ast.Name)):
            continue
        g = m.functions.get(f'{ed.module.name}.{n.func.id}')
        if g is None or g.cls is not None or g.node.args.kwarg is None:
            continue
        pos = [x.arg for x in g.node.args.args]
        tparam = None
        for d in ast.walk(g.node):
            if isinstance(d, ast.Dict):
                for k, v in zip(d.keys, d.values):
                    if isinstance(k, ast.Constant) and k.value == 'type' and isinstance(v, ast.Name) and v.id in pos:
                        tparam = v.id
        if tparam is None:
            continue
        binding = dict(zip(pos, n.args)) if not any(isinstance(a, ast.Starred) for a in n.args) else None
        if binding is not None:
            binding.update({k.arg: k.value for k in n.keywords if k.arg in pos})
        if not binding or not isinstance(binding.get(tparam), ast.Constant):
            continue
        kwname = g.node.args.kwarg.arg
        uses_items = any(isinstance(x, ast.Call) and call_attr(x) == 'items' and isinstance(x.func.value, ast.Name) and x.func.value.id == kwname
                         for x in ast.walk(g.node))
        if not uses_items:
            continue
        keys = {k.arg for k in n.keywords if k.arg and k.arg not in pos}
        spread_info = False
        for d in body_walk(ed.node):
            if isinstance(d, ast.Dict):
                keys |= {k.value for k in d.keys if isinstance(k, ast.Constant)}
                spread_info |= any(k is None and isinstance(v, ast.Call) and call_attr(v) == 'exportProperties' for k, v in zip(d.keys, d.values))
        return binding[tparam].value, keys - {'type'}, spread_info, ed
    return None


def _properties(m, clsname):
    """exportable Property declarations in the MRO: extname -> (attr, decl call, always, stub, mandatory)"""
    res = {}
    for q in reversed(m.mro(clsname)):
        ci = m.classes.get(q)
        if not ci:
            continue
        for attr, expr in ci.assigns.items():
            if isinstance(expr, ast.Call) and dotted(expr.func) == 'Property':
                ext = kwarg(expr, 'extname')
                exp = kwarg(expr, 'export')
                extname = ext.value if isinstance(ext, ast.Constant) else ''
                exported = bool(extname) or (isinstance(exp, ast.Constant) and bool(exp.value))
                if isinstance(exp, ast.Constant) and exp.value is False:
                    exported = False
                if not exported:
                    res.pop(attr, None)
                    continue
                always = isinstance(exp, ast.Constant) and exp.value == 'always'
                dtexpr = expr.args[1] if len(expr.args) > 1 else kwarg(expr, 'datatype')
                stub = isinstance(dtexpr, ast.Call) and dotted(dtexpr.func) == 'Stub'
                has_default = kwarg(expr, 'default') is not None
                res[attr] = (extname or '_' + attr, expr, always, stub, has_default)
    return {v[0]: (a,) + v[1:] for a, v in res.items()}


@rule('C03.R1', min_instances=12)
def rebuild_table_agreement(ctx):
    """exported keys subset of consumed keys subset of forwarded keys; required keys exported unconditionally"""
    m = ctx.m
    mod, table = _datatypes_table(m)
    fkeys = _floatargs_keys(m, mod)
    seen = set()
    for q in [DT + '.DataType'] + m.subclasses(DT + '.DataType'):
        ci = m.classes[q]
        if ci.module.name != DT:
            continue
        info = _type_name_and_keys(m, ci)
        if info is None:
            continue
        tname, explicit, uses_info, ed = info
        if tname not in table:
            ctx.bad(f'{q}:type name {tname!r} has a rebuild entry', ed.node, f'export_datatype says type {tname!r} but DATATYPES has no such entry', ed)
            continue
        seen.add(tname)
        ctx.analysed(ed)
        lam = table[tname]
        a = lam.args
        params = [x.arg for x in a.args + a.kwonlyargs]
        ndef = len(a.defaults)
        required = set(params[:len(a.args) - ndef]) if ndef else set(x.arg for x in a.args)
        required |= {x.arg for x, d in zip(a.kwonlyargs, a.kw_defaults) if d is None}
        uses_floatargs = any(call_name(c) == 'floatargs' for c in calls_in(lam, into_lambda=True)) or \
            any(isinstance(c, ast.Call) and dotted(c.func) == 'floatargs' for c in ast.walk(lam.body))
        consumed = set(params) | (fkeys if uses_floatargs else set())
        props = _properties(m, q) if uses_info else {}
        exported = set(explicit) | set(props)
        extra = exported - consumed
        ctx.check(not extra, f'{q}:exported keys are consumed by the {tname!r} lambda', lam,
                  f'exported {sorted(exported)} <= consumed {sorted(consumed)}',
                  f'{q.rpartition(".")[2]} exports {sorted(extra)} but the DATATYPES[{tname!r}] lambda does not take them: they fall into '
                  '**kwds (must-ignore), the rebuilt type accepts other values than the described one', ed)
        loaded = {n.id for n in ast.walk(lam.body) if isinstance(n, ast.Name) and isinstance(n.ctx, ast.Load)}
        fwd = loaded | (fkeys if uses_floatargs else set())
        missing = (set(params) - {'pname'}) - fwd
        ctx.check(not missing, f'{q}:consumed keys are forwarded by the {tname!r} lambda', lam,
                  'every named lambda parameter is used in the constructor call',
                  f'the DATATYPES[{tname!r}] lambda takes {sorted(missing)} but does not pass them on: the rebuilt type silently loses them', ed)
        for r in sorted(required - {'pname'}):
            if r in explicit:
                ctx.ok(f'{q}:required key {r!r} always exported', lam, 'explicit key of export_datatype', ed)
                continue
            p = props.get(r)
            if p is None:
                ctx.bad(f'{q}:required key {r!r} always exported', lam, f'the {tname!r} lambda requires {r!r} but {q.rpartition(".")[2]} never exports it', ed)
                continue
            attr, decl, always, stub, has_default = p
            ok = always or (stub and not has_default)
            ctx.check(ok, f'{q}:required key {r!r} always exported', decl,
                      "export='always'" if always else 'declared default is None (Stub datatype): every real value differs from it',
                      f'the {tname!r} lambda requires {r!r}, but property `{attr}` is exported only when it differs from its '
                      'default, and the default lies inside the value set: for that value export_datatype() drops the key and '
                      f'get_datatype()/copy() fail (e.g. BLOBType(0, 0).copy())', ed)
    for t in sorted(set(table) - seen - {'command', 'limit'}):
        ctx.undecided(f'{DT}.DATATYPES:{t}', table[t], f'no datatype class exports type {t!r}')
    # command is built from argument/result
    lam = table.get('command')
    if lam is not None:
        loaded = {n.id for n in ast.walk(lam.body) if isinstance(n, ast.Name)}
        ctx.check({'argument', 'result'} <= loaded, f'{DT}.DATATYPES:command forwards argument and result', lam, 'argument and result are rebuilt',
                  'the command lambda drops argument or result')


COPY_REQUIRED = {
    'EnumType': 'the enum name is not exported',
    'TextType': 'exported as plain string',
    'ArrayOf': 'members may be enums',
    'TupleOf': 'members may be enums',
    'StructOf': 'members may be enums',
    'ValueType': 'has no datainfo',
    'LimitsType': 'exported as plain tuple',
}
MEMBER_ATTRS = {'members', 'argument', 'result', 'other', 'types'}


@rule('C03.R2', min_instances=8)
def copy_without_sharing(ctx):
    """copy overrides copy their member datatypes and construct their own class"""
    m = ctx.m
    for name, why in sorted(COPY_REQUIRED.items()):
        ci = m.cls(f'{DT}.{name}')
        ctx.check('copy' in ci.methods, f'{ci.qualname}:overrides copy', ci.node, f'own copy() ({why})',
                  f'{name} has no own copy(): the generic copy via datainfo loses information ({why})')
    for q in m.subclasses(DT + '.DataType'):
        ci = m.classes[q]
        if ci.module.name != DT or 'copy' not in ci.methods:
            continue
        f = ci.methods['copy']
        ctx.analysed(f)
        for r in [n for n in body_walk(f.node) if isinstance(n, ast.Return) and n.value is not None]:
            v = r.value
            if isinstance(v, ast.Name):
                oo = origins(v, f.node)
                if len(oo) == 1 and isinstance(oo[0], ast.Call):
                    v = oo[0]
            if isinstance(v, ast.Call):
                # copy.copy(self) / copy.deepcopy are not constructors: the shallow one shares the propertyValues dict
                # (where min, max, minlen ... live), so a limit set on the copy changes the original
                target = dotted(v.func) or ''
                head, _, rest = target.partition('.')
                full = f.module.imports.get(head, head) + ('.' + rest if rest else '')     # local name -> dotted target
                if full == 'copy.copy':
                    if v.args and src(v.args[0]) == 'self':
                        ctx.bad(f'{f.qualname}:constructs own class', r, f'copy() of {ci.name} is a shallow `{src(v)}`: original and copy share one '
                                'propertyValues dict - a limit (min, max, minlen, maxlen, unit ...) set on the copy, e.g. by a subclass or a configuration, '
                                'changes the original and every other copy', f)
                        continue
            if not isinstance(v, ast.Call):
                ctx.undecided(f'{f.qualname}:constructs own class', r, f'`{src(v)}` is not a constructor call', f)
                continue
            cname = dotted(v.func)
            own = cname == ci.name or src(v.func) in ('type(self)', 'self.__class__')
            ctx.check(own, f'{f.qualname}:constructs own class', r, f'returns {cname}(...)',
                      f'copy() of {ci.name} constructs `{src(v.func)}`: the copy is of another class', f)
            # every use of a member attribute must be under .copy() - also behind a local (`low, _ = self.members; LimitsType(low)`)
            from sa.model import set_parents
            rv = resolved(v, f.node)
            set_parents(rv)
            for n in ast.walk(rv):
                if isinstance(n, ast.Attribute) and n.attr in MEMBER_ATTRS and isinstance(n.ctx, ast.Load):
                    par = n.parent
                    copied = False
                    # self.members.copy()
                    if isinstance(par, ast.Attribute) and par.attr == 'copy' and isinstance(par.parent, ast.Call):
                        copied = True
                    # X.copy() for X in self.members / k: v.copy() for k, v in self.members.items()
                    comp = next((a for a in ancestors(n) if isinstance(a, ast.comprehension)), None)
                    owner = None
                    for a in ancestors(n):
                        if isinstance(a, (ast.GeneratorExp, ast.ListComp, ast.DictComp, ast.SetComp)):
                            owner = a
                            break
                    if owner is not None:
                        elt = owner.value if isinstance(owner, ast.DictComp) else owner.elt
                        if isinstance(elt, ast.Call) and call_attr(elt) == 'copy':
                            copied = True
                    # TupleOf.copy(self).members[0]  - copy through the base class
                    if isinstance(n.value, ast.Call) and call_attr(n.value) == 'copy':
                        copied = True
                    # copied_members(self.members): a module level function that hands back copies of what it is given
                    for a in ancestors(n):
                        if isinstance(a, ast.Call) and isinstance(a.func, ast.Name) and is_copier(m, f.module, a.func.id):
                            copied = True
                        if isinstance(a, ast.stmt):
                            break
                    ctx.check(copied, f'{f.qualname}:member datatypes are copied ({src(n)})', n, 'passed through .copy()',
                              f'`{src(n)}` reaches the constructor of the copy without .copy(): original and copy share the member '
                              'datatype object - changing a property (unit, limits, enum) of one changes the other', f)


@rule('C03.R3', min_instances=10)
def acceptance_branches(ctx):
    """an isinstance-guarded branch without raise must not flow into an unconditional raise"""
    m = ctx.m
    n_cls = 0
    for q in m.subclasses(DT + '.DataType'):
        ci = m.classes[q]
        if ci.module.name != DT or 'compatible' not in ci.methods:
            continue
        n_cls += 1
        f = ci.methods['compatible']
        ctx.analysed(f)
        cfg = CFG(f.node, m, f.module)
        found = False
        for n in body_walk(f.node):
            if not isinstance(n, ast.If):
                continue
            facts = isinstance_facts(n.test, True)
            if not facts or not all(isinst for _, _, isinst in facts):
                continue
            if any(isinstance(x, ast.Raise) for st in n.body for x in walk_local(st)):
                continue
            found = True
            # normal exits of the body
            last_ids = set()
            for st in n.body:
                for x in walk_local(st):
                    last_ids.update(cfg.by_ast.get(id(x), []))
            body_ids = set(last_ids)
            # nodes reachable via normal edges only, leaving the body
            reach = cfg.reach(list(body_ids), exc=False)
            bad = [cfg.nodes[i] for i in reach - body_ids if isinstance(cfg.nodes[i].ast, ast.Raise)
                   and not any(isinstance(a, (ast.If, ast.ExceptHandler, ast.For, ast.While)) and a is not n and
                               any(cfg.nodes[i].ast is y for y in ast.walk(a)) for a in ancestors(cfg.nodes[i].ast))]
            ctx.check(not bad, f'{f.qualname}:acceptance branch `{src(n.test)}` accepts', n,
                      'the branch ends in a return / the end of the function',
                      f'the branch under `{src(n.test)}` contains no raise (it was written to accept) but then runs into the '
                      f'unconditional `{src(bad[0].ast) if bad else ""}`: compatible() rejects a pairing it was written to support '
                      '(e.g. IntRange(0, 1).compatible(BoolType()))', f)
        if not found:
            ctx.ok(f'{f.qualname}:no isinstance acceptance branch', f.node, 'no acceptance branch to check (rejects by raise / accepts by falling off the end)', f)
    if n_cls < 8:
        raise AnchorMissing('compatible() overrides not found')


@rule('C03.R4', min_instances=2)
def users_of_compatible(ctx):
    """Writable.__init__ and the proxy consistency check use compatible() inside refusing handlers"""
    m = ctx.m
    w = m.method('frappy.modules.Writable', '__init__', inherited=False)
    ctx.analysed(w)
    calls = func_calls(w.node, attr='compatible')
    if not calls:
        ctx.bad(f'{w.qualname}:target/value compatibility checked', w.node, 'Writable.__init__ does not check target against value datatype', w)
    for c in calls:
        ok = False
        for t, part in enclosing_tries(c):
            if part == 'body':
                for h in t.handlers:
                    names = [d for d, _ in raised_names(h.body)]
                    if names and all(d in ('ConfigError', 'ProgrammingError') for d in names):
                        ok = True
        recv_ok = 'target' in src(c.func.value) and c.args and 'value' in src(c.args[0])
        ctx.check(ok and recv_ok, f'{w.qualname}:target/value compatibility checked', c,
                  'target_dt.compatible(value_dt) inside a handler raising Config/ProgrammingError',
                  'the compatibility check of target vs. value is not turned into a configuration error (or checks the wrong direction)', w)
    p = m.method('frappy.proxy.ProxyModule', '_check_descriptive_data', inherited=False)
    ctx.analysed(p)
    calls = func_calls(p.node, attr='compatible')
    dirs = {(src(c.func.value), src(c.args[0])) for c in calls if c.args}
    both = ('pobj.datatype', 'dt') in dirs and ('dt', 'pobj.datatype') in dirs
    ctx.check(both, f'{p.qualname}:both directions checked for writable parameters', p.node, 'pobj.datatype.compatible(dt) and dt.compatible(pobj.datatype)',
              f'proxy consistency check only tests {sorted(dirs)}', p)


def _grid_quotients(m):
    """int(...) calls in ScaledInteger whose argument divides by self.scale"""
    ci = m.cls(f'{DT}.ScaledInteger')
    out = []
    for f in ci.methods.values():
        for c in calls_in(f.node):
            if dotted(c.func) == 'int' and c.args:
                a = c.args[0]
                if any(isinstance(x, ast.BinOp) and isinstance(x.op, ast.Div) and src(resolved(x.right, f.node)) == 'self.scale' for x in ast.walk(a)):
                    out.append((f, c))
    return out


@rule('C03.R5', min_instances=3)
def grid_quotient_is_rounded(ctx):
    """every conversion of a scaled value to its integer grid index is int(round(x / self.scale)), never a truncation"""
    m = ctx.m
    sites = _grid_quotients(m)
    if not sites:
        raise AnchorMissing('no int(... / self.scale) conversion found in ScaledInteger')
    for f, c in sites:
        ctx.analysed(f)
        a = c.args[0]
        ok = isinstance(a, ast.Call) and dotted(a.func) == 'round'
        ctx.check(ok, f'{f.qualname}:grid index is rounded', c, 'int(round(x / self.scale))',
                  f'`{src(c)}` truncates the quotient: a value exactly on the grid whose float quotient is one ulp below the integer '
                  '(0.7 / 0.1 == 6.999999999999999) is mapped to the next lower grid index - exported limits and values are off by one step', f)


@rule('C03.R6', min_instances=1)
def int_range_into_enum_checks_every_value(ctx):
    """IntRange.compatible: for an enum / bool target every integer of the range is offered to the target"""
    m = ctx.m
    f = m.method(f'{DT}.IntRange', 'compatible', inherited=False)
    ctx.analysed(f)
    cfg = CFG(f.node, m, f.module)
    p = f.node.args.args[1].arg

    def is_enum(a, tv):
        return tv and isinstance(a, ast.Call) and dotted(a.func) == 'isinstance' and len(a.args) == 2 and src(a.args[0]) == p and 'EnumType' in src(a.args[1])

    def not_enum(a, tv):
        return not tv and isinstance(a, ast.Call) and dotted(a.func) == 'isinstance' and len(a.args) == 2 and src(a.args[0]) == p and 'EnumType' in src(a.args[1])
    if not any(isinstance(x, ast.Call) and dotted(x.func) == 'isinstance' and 'EnumType' in src(x) for x in body_walk(f.node)):
        raise AnchorMissing('enum branch of IntRange.compatible not found')
    enum_side = sides_with_fact(cfg, is_enum)
    other_side = sides_with_fact(cfg, not_enum)
    full = []
    for loop in [x for x in body_walk(f.node) if isinstance(x, ast.For)]:
        it = loop.iter
        if isinstance(it, ast.Call) and dotted(it.func) == 'range' and len(it.args) == 2 and src(it.args[0]) == 'self.min' and \
                src(it.args[1]).replace(' ', '') in ('self.max+1', '1+self.max'):
            lv = src(loop.target)
            if any(isinstance(c.func, ast.Name) and c.func.id == p and c.args and src(c.args[0]) == lv for c in calls_in(loop)) and \
                    not (set(cfg.ids(loop)) & other_side):
                full.append(loop)
    calls = [c for c in calls_in(f.node) if ((isinstance(c.func, ast.Name) and c.func.id == p) or
             (isinstance(c.func, ast.Attribute) and dotted(c.func.value) == p and c.func.attr in ('validate', '__call__', 'import_value')))
             and set(cfg.node_of(c)) and set(cfg.node_of(c)) <= enum_side]
    endpoints_only = bool(calls) and all(c.args and src(c.args[0]) in ('self.min', 'self.max') for c in calls)
    construct = f'{f.qualname}:every integer of the range is checked against the enum'
    if full:
        ctx.ok(construct, full[0], 'for i in range(self.min, self.max + 1): other(i)', f)
    elif endpoints_only:
        ctx.bad(construct, calls[0], 'only the limits of the range are offered to the enum / bool target: an enum with gaps whose limits are '
                'members (IntRange(0, 2) into EnumType(a=0, c=2)) is declared compatible although 1 is not a member', f)
    else:
        ctx.undecided(construct, f.node, 'form of the membership check not recognised', f)


def _ctor_none_mapping(m, ci, pname):
    """how the constructor of ci maps <pname>=None: -> ('const', expr) | ('depends', expr) | None"""
    init = ci.methods.get('__init__')
    if init is None:
        return None
    others = {a.arg for a in init.node.args.args} - {'self', pname}
    for n in body_walk(init.node):
        # if p is None: p = <expr>
        if isinstance(n, ast.If) and src(n.test) == f'{pname} is None':
            for st in n.body:
                if isinstance(st, ast.Assign) and src(st.targets[0]) == pname:
                    dep = {x.id for x in ast.walk(st.value) if isinstance(x, ast.Name)} & others
                    return ('depends' if dep else 'const', st.value)
        # p if p is not None else <expr>
        if isinstance(n, ast.IfExp) and src(n.test) == f'{pname} is not None':
            dep = {x.id for x in ast.walk(n.orelse) if isinstance(x, ast.Name)} & others
            return ('depends' if dep else 'const', n.orelse)
        if isinstance(n, ast.IfExp) and src(n.test) == f'{pname} is None':
            dep = {x.id for x in ast.walk(n.body) if isinstance(x, ast.Name)} & others
            return ('depends' if dep else 'const', n.body)
    return None


@rule('C03.R1b', min_instances=6)
def omitted_key_means_the_property_default(ctx):
    """a key that is exported only when it differs from the property default must be rebuilt to exactly that default when
    it is omitted: the lambda default equals the property default, or it is None and the constructor maps None to a
    value that does not depend on the other arguments"""
    m = ctx.m
    mod, table = _datatypes_table(m)
    for q in m.subclasses(DT + '.DataType'):
        ci = m.classes[q]
        if ci.module.name != DT:
            continue
        info = _type_name_and_keys(m, ci)
        if info is None or info[0] not in table or not info[2]:
            continue
        tname, explicit, uses_info, ed = info
        lam = table[tname]
        a = lam.args
        defaults = dict(zip([x.arg for x in a.args][len(a.args) - len(a.defaults):], a.defaults))
        props = _properties(m, q)
        for key, dflt in sorted(defaults.items()):
            p = props.get(key)
            if p is None or key in explicit or key == 'pname':
                continue
            attr, decl, always, stub, has_default = p
            if always:
                continue
            pd = kwarg(decl, 'default')
            construct = f'{q}:omitted key {key!r} is rebuilt to the property default'
            ld = m.const(mod, dflt)
            pdv = m.const(ci.module, pd) if pd is not None else UNKNOWN
            if ld is not UNKNOWN and ld is not None and pdv is not UNKNOWN:
                ctx.check(ld == pdv, construct, lam, f'lambda default {ld!r} == property default',
                          f'the {tname!r} lambda uses {key}={ld!r} for an omitted key, but the property default (the value for which the key is '
                          f'omitted) is {pdv!r}', ed)
                continue
            if isinstance(dflt, ast.Constant) and dflt.value is None:
                how = _ctor_none_mapping(m, ci, key)
                if how is None:
                    ctx.undecided(construct, lam, f'constructor handling of {key}=None not recognised', ed)
                elif how[0] == 'depends':
                    ctx.bad(construct, lam, f'for an omitted {key!r} the {tname!r} lambda passes None and the constructor then computes `{src(how[1])}`, which depends on '
                            f'another argument, while the key is omitted exactly when it equals the property default `{src(pd) if pd is not None else None}`: '
                            'the rebuilt / copied type has other limits than the exported one (StringType(minchars=5, maxchars=UNLIMITED).copy() '
                            'accepted exactly 5 characters only)', ed)
                else:
                    ctx.ok(construct, lam, f'None is mapped to `{src(how[1])}` independently of the other arguments', ed)
            else:
                ctx.undecided(construct, lam, f'default `{src(dflt)}` can not be compared with the property default', ed)


@rule('C03.R1d', min_instances=1)
def struct_states_an_empty_optional_list(ctx):
    """StructOf.export_datatype: the key 'optional' may be left out only when ALL members are optional (that is what an
    omitted key means on the rebuild side).  `optional = []` - no member may be left out - is a value that has to be stated:
    the store of the key must not sit behind a truthiness test of the list"""
    m = ctx.m
    ci = m.cls(f'{DT}.StructOf')
    f = ci.methods.get('export_datatype')
    if f is None:
        raise AnchorMissing('StructOf.export_datatype not found')
    ctx.analysed(f)
    cfg = CFG(f.node, m, f.module)
    stores = [x for x in body_walk(f.node) if isinstance(x, ast.Subscript) and isinstance(x.ctx, ast.Store) and isinstance(x.slice, ast.Constant) and x.slice.value == 'optional']
    stores += [k for d in body_walk(f.node) if isinstance(d, ast.Dict) for k in d.keys if isinstance(k, ast.Constant) and k.value == 'optional']
    if not stores:
        raise AnchorMissing("store of the key 'optional' not found in StructOf.export_datatype", violation=f'{f.qualname}:optional is exported')

    def optional_list(e):
        if isinstance(e, ast.Attribute) and e.attr == 'optional':
            return True
        if isinstance(e, ast.Name):
            for o in origins(e, f.node):
                if 'optional' in src(o):
                    return True
        return False
    by_truth = sides_with_fact(cfg, lambda a, tv: tv and optional_list(a))
    for st in stores:
        stmt = next((a for a in ancestors(st) if isinstance(a, ast.stmt)), None)
        ids = set(cfg.ids(stmt)) if stmt is not None else set()
        ctx.check(not (ids & by_truth), f'{f.qualname}:an empty optional list is stated', st, 'not behind a truthiness test of the list',
                  "the key 'optional' is exported only when the list is non-empty: a struct whose members are ALL mandatory (optional == []) is described "
                  "without the key, which the rebuild side reads as 'all members optional' - the described type accepts partial structs the node refuses", f)


@rule('C03.R1e', min_instances=1)
def rebuild_passes_falsy_property_values_on(ctx):
    """floatargs (the helper that forwards unit / fmtstr / absolute_resolution / relative_resolution from a description to the
    constructor) selects the keys by PRESENCE: a description that states `relative_resolution: 0.0` or `absolute_resolution: 0`
    rebuilds a type with that resolution - a filter on the truth of the value drops exactly these, and the rebuilt type (and
    every copy(), which goes through the description) falls back to the default tolerance"""
    m = ctx.m
    fa = m.functions.get(f'{DT}.floatargs')
    if fa is None:
        raise AnchorMissing('frappy.datatypes.floatargs not found')
    ctx.analysed(fa)
    prm = fa.node.args.args[0].arg if fa.node.args.args else 'kwds'
    n = 0
    for comp in [x for x in ast.walk(fa.node) if isinstance(x, ast.comprehension)]:
        n += 1
        tgt = {x.id for x in ast.walk(comp.target) if isinstance(x, ast.Name)}
        for cond in comp.ifs:
            from sa.rules.common import _truthiness_operands
            bad = []
            for op in [cond] if isinstance(cond, (ast.Name, ast.Call, ast.Subscript)) else []:
                bad.append(op)
            for x in ast.walk(cond):
                if isinstance(x, ast.BoolOp):
                    bad += [v for v in x.values if isinstance(v, (ast.Name, ast.Call, ast.Subscript))]
                if isinstance(x, ast.UnaryOp) and isinstance(x.op, ast.Not) and isinstance(x.operand, (ast.Name, ast.Call, ast.Subscript)):
                    bad.append(x.operand)
            # a value test: kwds.get(k) / kwds[k] / the value variable of `for k, v in kwds.items()`
            valtests = [b for b in bad if (isinstance(b, ast.Call) and call_attr(b) == 'get' and src(b.func.value) == prm) or
                        (isinstance(b, ast.Subscript) and src(b.value) == prm) or
                        (isinstance(b, ast.Name) and b.id in tgt and isinstance(comp.target, ast.Tuple) and b.id == src(comp.target.elts[-1]))]
            ctx.check(not valtests, f'{fa.qualname}:keys are selected by presence', cond, f'`if {src(cond)}`',
                      f'`if {src(cond)}` drops a float property whose VALUE is falsy: `relative_resolution: 0.0` / `absolute_resolution: 0` stated in a description '
                      'are not passed to the constructor - the rebuilt type (on a client, in copy(), in Parameter clones) accepts values within the DEFAULT '
                      'tolerance of the limits that the original refuses', fa)
    if not n:
        ctx.undecided(f'{fa.qualname}:keys are selected by presence', fa.node, 'no comprehension found', fa)


@rule('C03.R2b', min_instances=1)
def enum_type_never_adopts_a_foreign_enum(ctx):
    """EnumType.__init__ always builds its own Enum object (copy() = EnumType(self._enum) relies on that)"""
    m = ctx.m
    f = m.method(f'{DT}.EnumType', '__init__', inherited=False)
    ctx.analysed(f)
    params = {a.arg for a in f.node.args.args}
    stores = [(t, v, s) for t, v, s in attr_stores(f.node) if t.attr == '_enum' and dotted(t.value) == 'self']
    if not stores:
        raise AnchorMissing('store of self._enum not found in EnumType.__init__')
    for t, v, s in stores:
        fresh = isinstance(v, ast.Call) and dotted(v.func) == 'Enum'
        ctx.check(fresh, f'{f.qualname}:store self._enum', s, 'a new Enum(...) is built',
                  f'`{src(s)}` adopts the Enum object that was passed in: EnumType.copy() (= EnumType(self._enum)) then shares the enum with the '
                  'original - set_name() on the copy (done by Parameter.__set_name__) renames the original too', f)


@rule('C03.R3b', min_instances=1)
def struct_compatible_checks_every_member(ctx):
    """StructOf.compatible checks every own member against the other struct (no member is skipped)"""
    m = ctx.m
    f = m.method(f'{DT}.StructOf', 'compatible', inherited=False)
    ctx.analysed(f)
    loops = [n for n in body_walk(f.node) if isinstance(n, ast.For) and src(n.iter).startswith('self.members')]
    if not loops:
        raise AnchorMissing('loop over self.members not found in StructOf.compatible')
    for l in loops:
        calls = [c for c in calls_in(l) if call_attr(c) == 'compatible']
        skips = [x for st in l.body for x in walk_local(st) if isinstance(x, ast.Continue)]
        cond = [c for c in calls if any(isinstance(a, ast.If) and any(a is y for y in ast.walk(l)) for a in ancestors(c))]
        ctx.check(bool(calls) and not skips and not cond, f'{f.qualname}:every member is checked', l,
                  'member.compatible(other.members[k]) is called unconditionally for every member',
                  'a member is skipped (continue / conditional call): a value carrying that member is valid for this struct but '
                  'refused by the other one although compatible() passed', f)


def _lossy(expr):
    """a formatting round trip inside an expression: float(f'{x:g}'), '%g' % x, round(x, n), format(x, spec)"""
    for n in ast.walk(expr):
        if isinstance(n, ast.FormattedValue) and n.format_spec is not None:
            return n
        if isinstance(n, ast.BinOp) and isinstance(n.op, ast.Mod) and isinstance(n.left, ast.Constant) and isinstance(n.left.value, str):
            return n
        if isinstance(n, ast.Call) and dotted(n.func) == 'round' and len(n.args) == 2:
            return n
        if isinstance(n, ast.Call) and (dotted(n.func) == 'format' or call_attr(n) == 'format'):
            return n
    return None


@rule('C03.R1c', min_instances=8)
def exported_property_values_are_exact(ctx):
    """the values export_datatype puts into the datainfo are the property values themselves or exact conversions of
    them (the integer grid index of a scaled limit): a value that went through number formatting (as __repr__ does for
    readability) rebuilds a different type"""
    m = ctx.m
    from sa.lib import helper_methods_called
    for q in m.subclasses(f'{DT}.DataType'):
        ci = m.classes[q]
        f = ci.methods.get('export_datatype')
        if ci.module.name != DT or f is None:
            continue
        ctx.analysed(f)
        # helpers of the class on the export path - also an override of get_info in the datatype class itself (the base
        # implementations in DataType / HasProperties only merge the keywords into the exported properties)
        units = [f] + [h for site, h in helper_methods_called(m, f)
                       if h.name != 'exportProperties' and (h.name != 'get_info' or (h.cls is not None and h.cls.qualname != f'{DT}.DataType'))]
        n = 0
        for u in units:
            for c in calls_in(u.node):
                if call_attr(c) != 'get_info' and not (isinstance(c.func, ast.Name) and c.func.id == 'dict'):
                    continue
                for k in c.keywords:
                    if k.arg in (None, 'type'):
                        continue
                    n += 1
                    bad = _lossy(k.value)
                    ctx.check(bad is None, f'{f.qualname}:exported {k.arg} is exact', k.value, f'`{src(k.value)}`',
                              f'datainfo key `{k.arg}` is exported as `{src(k.value)}`: `{src(bad) if bad is not None else ""}` shortens the number, '
                              'so the type rebuilt from the description (on a client, in copy(), in Parameter clones) has a different '
                              f'{k.arg} and converts the same wire values to different numbers', u)
            for r in [x for x in body_walk(u.node) if isinstance(x, ast.Return) and x.value is not None]:
                bad = _lossy(r.value) if not any(isinstance(x, ast.Call) and call_attr(x) == 'get_info' for x in ast.walk(r.value)) else None
                if bad is not None:
                    ctx.bad(f'{f.qualname}:exported datainfo is exact', r, f'`{src(bad)}` formats a number on the way into the datainfo', u)
        if n == 0:
            ctx.ok(f'{f.qualname}:exported datainfo is exact', f.node, 'no overridden property values', f)


_LOWER = {'min', 'minlen', 'minchars', 'minbytes'}
_UPPER = {'max', 'maxlen', 'maxchars', 'maxbytes'}


@rule('C03.R7', min_instances=20)
def compatibility_verdicts_refuse(ctx):
    """compatible(self, other) passes only if every value of self is a value of other.  Decided per implementation: a foreign
    kind of `other` never reaches a normal exit (negative isinstance test raises / positive ones are the only way to a normal
    exit / the AttributeError handler raises); every limit of self is compared with the same limit of other in the narrowing
    direction and the violating side raises; the numeric kinds offer BOTH end points to other on every accepting path; bool
    offers both values, enum every member, tuple checks the arity, struct the mandatory members, command the argument and the
    result in opposite directions"""
    m = ctx.m
    for q in sorted(m.subclasses(f'{DT}.DataType')):
        ci = m.classes[q]
        f = ci.methods.get('compatible')
        if ci.module.name != DT or f is None or len(f.node.args.args) < 2:
            continue
        ctx.analysed(f)
        o = f.node.args.args[1].arg
        cfg = CFG(f.node, m, f.module)
        name = ci.name
        # the verdict may be delegated: `other` handed to a function these rules can not look into (a checker picked into a local,
        # a helper that was not expanded) - what happens there is not decided here
        handed = [c for c in calls_in(f.node) if any(isinstance(a, ast.Name) and a.id == o for a in c.args) and
                  not (isinstance(c.func, ast.Name) and (c.func.id in ('isinstance', 'type', 'issubclass', 'repr', 'str', 'set', 'list', 'zip', 'len', 'getattr', 'hasattr')
                                                         or c.func.id == o)) and
                  not (isinstance(c.func, ast.Attribute) and c.func.attr in ('compatible', 'validate', 'import_value', 'format', 'append'))]
        if handed:
            ctx.undecided(f'{f.qualname}:verdict delegated', handed[0], f'`{src(handed[0])}` hands `{o}` to a callee these rules do not follow', f)
            continue
        # (1) tests that mention `other`: the refusing side raises
        for t in cfg.nodes:
            if t.kind != 'test':
                continue
            a = t.ast
            neg = isinstance(a, ast.UnaryOp) and isinstance(a.op, ast.Not)
            core = a.operand if neg else a
            if isinstance(core, ast.Call) and dotted(core.func) == 'isinstance' and core.args and src(core.args[0]) == o:
                continue        # kind dispatch: decided below (2)
            lims = []
            for sub in (a.values if isinstance(a, ast.BoolOp) else [a]):
                for l, op, r in compare_ops(sub):
                    for p in _LOWER | _UPPER | {'isUTF8'}:
                        if {l, r} == {f'self.{p}', f'{o}.{p}'} and op in ('<', '<='):
                            self_left = l == f'self.{p}'
                            violating = self_left if p in _LOWER else not self_left      # self.min < other.min ; other.max < self.max
                            if p == 'isUTF8':
                                violating = not self_left                                 # other.isUTF8 < self.isUTF8
                            lims.append((p, violating, op == '<'))
                    if op in ('<', '<=') and l.startswith('len(') and r.startswith('len(') and o in l + r and 'members' in l and 'members' in r:
                        ctx.bad(f'{f.qualname}:different arity is refused', a, f'`{src(a)}` compares the numbers of members by order: a target tuple with MORE '
                                'members passes, zip() truncates the member check - every value of this type is refused by that target ("tuple needs n elements")', f)
                    if op in ('!=', '==') and 'len(' in l and 'len(' in r and o in l + r:
                        ctx.check(side_never_completes(cfg, t.id, 'T' if op == '!=' else 'F'), f'{f.qualname}:different arity is refused', a,
                                  'the unequal side raises', f'`{src(a)}`: tuples of different length are declared compatible (zip() truncates the member check)', f)
            if lims:
                kinds = {v for p, v, s in lims}
                if len(kinds) == 1:
                    label = 'T' if kinds == {True} else 'F'
                    ctx.check(side_never_completes(cfg, t.id, label), f'{f.qualname}:wider limits are refused', a, f'`{src(a)}`: the violating side raises',
                              f'`{src(a)}`: the side on which self is wider than other completes normally - a type whose values do not fit is declared compatible', f)
                    for p, v, strict in lims:
                        ok = strict if v else not strict
                        ctx.check(ok, f'{f.qualname}:equal {p} is compatible', a, f'`{src(a)}`',
                                  f'`{src(a)}`: equal {p} on both sides is refused (or one step wider accepted)', f)
                else:
                    ctx.undecided(f'{f.qualname}:wider limits are refused', a, 'mixed polarity', f)
            if isinstance(a, ast.Name) and any(isinstance(v, ast.BinOp) and o in src(v) for v, st, how in local_assigns(f.node, a.id) if v is not None):
                ctx.check(side_never_completes(cfg, t.id, 'T'), f'{f.qualname}:remaining mandatory members are refused', a, f'`if {a.id}:` raises',
                          f'`if {a.id}:` does not raise: a struct lacking members that are mandatory in the other type is declared compatible', f)
        # (2) kind dispatch: no normal exit without having passed some isinstance test of `other` on its ACCEPTING side (the true
        # side of `isinstance(other, K)`, the false side of `not isinstance(other, K)`; one test, nested tests, guard clauses)
        def kind_ok(a, tv):
            return tv and isinstance(a, ast.Call) and dotted(a.func) == 'isinstance' and len(a.args) == 2 and src(a.args[0]) == o
        kind_tests = [t for t in cfg.nodes if t.kind == 'test' and isinstance(t.ast, ast.expr) and
                      any(isinstance(x, ast.Call) and dotted(x.func) == 'isinstance' and x.args and src(x.args[0]) == o for x in ast.walk(t.ast))]
        if kind_tests:
            ctx.check(paths_need_fact(cfg, [cfg.entry], [cfg.exit], kind_ok), f'{f.qualname}:foreign kind is refused', kind_tests[0].ast,
                      'every normal exit lies behind an isinstance test of other, passed on its accepting side',
                      'a path on which every isinstance test of `other` failed reaches a normal exit: any datatype is declared compatible', f)
            # a dense (float like) type is never compatible with a discrete one: not every value between two whole-number limits
            # is an integer / an enum member
            if name in ('FloatRange', 'ScaledInteger'):
                for t in kind_tests:
                    for x in ast.walk(t.ast):
                        if isinstance(x, ast.Call) and dotted(x.func) == 'isinstance' and len(x.args) == 2 and src(x.args[0]) == o:
                            kinds = {n.id for n in ast.walk(resolved(x.args[1], f.node)) if isinstance(n, ast.Name)}
                            discrete = kinds & {'IntRange', 'EnumType', 'BoolType'}
                            ctx.check(not discrete, f'{f.qualname}:a discrete target is refused', x, f'accepted kinds {sorted(kinds)}',
                                      f'`{src(x)}` lets {sorted(discrete)} pass as target of a {name}: only the two limits are offered to the target, and '
                                      f'IntRange.validate accepts whole-number floats - {name}(0, 10) is declared compatible with IntRange(0, 10) although 0.5 is refused', f)
        # (3) attribute style: the AttributeError handler raises
        for h in [x for x in body_walk(f.node) if isinstance(x, ast.ExceptHandler)]:
            ctx.check(contains_raise(h.body) and isinstance(h.body[-1], ast.Raise), f'{f.qualname}:foreign kind is refused (handler)', h,
                      'the handler ends in a raise', 'the handler for a foreign datatype (missing attribute) does not raise: any datatype is declared compatible', f)
        # (4) required limit comparisons per class
        props = {a for qq in m.mro(ci.qualname) for a, e in (m.classes[qq].assigns.items() if qq in m.classes else [])
                 if a in (_LOWER | _UPPER) and isinstance(e, ast.Call) and dotted(e.func) == 'Property'}
        text = ' '.join(src(t.ast) for t in cfg.nodes if t.kind == 'test')
        ends = {p: [c for c in calls_in(f.node) if ((isinstance(c.func, ast.Name) and c.func.id == o) or
                                                    (isinstance(c.func, ast.Attribute) and dotted(c.func.value) == o and c.func.attr in ('validate', 'import_value')))
                    and c.args and src(c.args[0]) == f'self.{p}'] for p in ('min', 'max')}
        for p in sorted(props):
            # compared as they are: `self.min < other.min` - a comparison of converted values (grid indices of two scaled
            # types with different scales) does not count
            compared = any({l, r} == {f'self.{p}', f'{o}.{p}'} for t in cfg.nodes if t.kind == 'test' and isinstance(t.ast, ast.expr)
                           for sub in [x for x in ast.walk(resolved(t.ast, f.node)) if isinstance(x, ast.Compare)] for l, op, r in compare_ops(sub))
            if p in ('min', 'max') and not compared:
                # numeric kinds: the end point is offered to other on every accepting path (or every integer of the range is)
                via = [i for c in ends[p] for i in cfg.node_of(c)]
                via += [i for loop in body_walk(f.node) if isinstance(loop, ast.For) and isinstance(loop.iter, ast.Call) and dotted(loop.iter.func) == 'range'
                        and 'self.min' in src(loop.iter) and 'self.max' in src(loop.iter)
                        and any(isinstance(c.func, ast.Name) and c.func.id == o for c in calls_in(loop)) for i in cfg.ids(loop)]
                ok = bool(via) and cfg.all_paths_pass([cfg.entry], [cfg.exit], via, exc=False)
                ctx.check(ok, f'{f.qualname}:{p} is offered to the other type', f.node, f'every accepting path passes {o}.validate(self.{p})',
                          f'a normal exit is reachable without offering self.{p} to `{o}`: a range that is wider than the other type at its '
                          f'{"lower" if p == "min" else "upper"} end is declared compatible', f)
            else:
                ctx.check(compared, f'{f.qualname}:{p} is compared', f.node, f'self.{p} is compared with {o}.{p}',
                          f'self.{p} is not compared with {o}.{p}: a type that is wider in {p} is declared compatible', f)
        # (5) class specific
        if name == 'BoolType':
            consts = {c.args[0].value for c in calls_in(f.node) if isinstance(c.func, ast.Name) and c.func.id == o and c.args and isinstance(c.args[0], ast.Constant)}
            ctx.check(consts >= {True, False}, f'{f.qualname}:both values are offered', f.node, 'other(False) and other(True)',
                      f'only {sorted(consts)} offered: a target that lacks one of the two values is declared compatible', f)
        if name == 'EnumType':
            loops = [x for x in body_walk(f.node) if isinstance(x, ast.For) and 'members' in src(x.iter)
                     and any(isinstance(c.func, ast.Name) and c.func.id == o and c.args and src(c.args[0]) == src(x.target) for c in calls_in(x))]
            ctx.check(bool(loops), f'{f.qualname}:every member is offered', f.node, 'for m in members: other(m)',
                      'the members are not all offered to the other type', f)
        if name == 'StringType':
            ctx.check('self.isUTF8' in text and f'{o}.isUTF8' in text, f'{f.qualname}:isUTF8 is compared', f.node, 'UTF-8 into ASCII is refused',
                      'isUTF8 is not compared: a UTF-8 string type is declared compatible with an ASCII-only one', f)
        if name in ('ArrayOf', 'TupleOf'):
            mc = [c for c in calls_in(f.node) if call_attr(c) == 'compatible']
            ctx.check(bool(mc), f'{f.qualname}:members are compared', f.node, 'member types are checked', 'the member datatypes are not compared', f)
        if name == 'CommandType':
            calls = {src(c) for c in calls_in(f.node) if call_attr(c) == 'compatible'}
            ctx.check(f'self.argument.compatible({o}.argument)' in calls and f'{o}.result.compatible(self.result)' in calls,
                      f'{f.qualname}:argument and result are checked in opposite directions', f.node, 'argument: self into other, result: other into self',
                      f'found {sorted(calls)}', f)
            # ... and they are checked when the two sides DIFFER (the `!=` guard only skips the case "both None")
            ccfg = CFG(f.node, m, f.module)

            def same(a, tv):
                return any((op == '==' and tv) or (op == '!=' and not tv) for l, op, r in compare_ops(a)
                           if {l.rpartition('.')[2], r.rpartition('.')[2]} <= {'argument', 'result'} and l.rpartition('.')[2] == r.rpartition('.')[2])
            only_when_equal = sides_with_fact(ccfg, same)
            for c in [c for c in calls_in(f.node) if call_attr(c) == 'compatible']:
                ctx.check(not (set(ccfg.node_of(c)) & only_when_equal), f'{f.qualname}:`{src(c)}` runs when the two types differ', c, 'not confined to the equal side',
                          f'`{src(c)}` is only reached when argument / result of the two commands are EQUAL: commands with different argument or result types '
                          'are declared compatible without being compared', f)


@rule('C03.R2c', min_instances=4)
def copy_returns_a_datatype(ctx):
    """every copy() override of a datatype returns an object on every normal exit (a constructor call / a copy), never
    None by falling off the end"""
    m = ctx.m
    for q in sorted([f'{DT}.DataType'] + m.subclasses(f'{DT}.DataType')):
        ci = m.classes[q]
        f = ci.methods.get('copy')
        if ci.module.name != DT or f is None:
            continue
        ctx.analysed(f)
        cfg = CFG(f.node, m, f.module)
        bad = can_end_without_value(cfg, f.node)
        ctx.check(not bad, f'{f.qualname}:returns the copy', f.node, 'every normal exit returns an object',
                  f'{ci.name}.copy() can return None: Parameter.clone / DataType.copy callers then hold no datatype', f)


@rule('C03.R1f', min_instances=3)
def a_rebuilt_upper_limit_of_zero_stays_zero(ctx):
    """shared with C01.R7f: get_datatype() / copy() hand the exported limits back to the constructors of the sized types - an upper
    size limit is taken as "not given" by identity only; `maxsize or minsize or fallback` rebuilds `maxchars: 0` as unlimited and
    `maxlen: 0` as 100, the rebuilt type is not equivalent to the exported one"""
    from sa.rules import c01
    c01.an_upper_limit_of_zero_is_a_given_limit(ctx)
