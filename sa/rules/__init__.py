"""importing this package registers all rules"""
import importlib
import os

for _f in sorted(os.listdir(os.path.dirname(__file__))):
    if _f.startswith('c') and _f.endswith('.py'):
        importlib.import_module(f'sa.rules.{_f[:-3]}')
