"""C16 - communicator: atomic request/reply pairing, stale data discarded, self-healing"""
from sa.core import rule, prop_info
from sa.lib import *  # noqa: F401,F403
from sa.lib import (in_lock, attr_stores, func_calls, origins, compare_ops, handler_type_names, local_assigns,
                    contains_raise, enclosing_tries)
from sa.model import AnchorMissing, names_in
from sa.typestate import forward_paths, sdict, sfreeze
from sa import roles

IOBASE = 'frappy.io.IOBase'
ASYN = 'frappy.lib.asynconn.AsynConn'

prop_info(
    'C16',
    'Decided: R1 in every communicate of the framework communicators flush, send and receive are inside one _lock '
    'region and, path-sensitively, a flush precedes the first send and a send precedes every receive; R2 in every '
    'multicomm the loop over the requests is inside the _lock region and the per-request delay is slept inside the '
    'loop body; R3 the reconnect rate limiter stores the attribute its guard reads; R4 every ConnectionClosed '
    'handler closes the connection (is_connected=False, _conn dropped) and leaves through a CommunicationFailedError; '
    'R5 readline/readbytes consume from and append to the single receive buffer and keep the remainder; R6 the poll '
    'thread registers its re-trigger callback and every framework callback returns a true value on its normal paths '
    '(callCallbacks drops a callback that returns false); R7 with a time-out given, every cycle of a receive loop '
    'passes a comparison with the deadline or makes bounded progress.',
    not_decided='reply pairing under concrete schedules, time-out durations in virtual time, callbacks exactly once over reconnect histories.')


def _comm_classes(m):
    return [q for q in [IOBASE] + m.subclasses(IOBASE) if q.startswith('frappy.io.')]


def _conn_calls(funcnode, names):
    return [c for c in calls_in(funcnode) if call_attr(c) in names and isinstance(c.func, ast.Attribute)
            and src(c.func.value) == 'self._conn']


def _nonempty_iter(expr, funcnode):
    if isinstance(expr, ast.Call) and dotted(expr.func) in ('enumerate', 'list', 'tuple', 'reversed') and len(expr.args) == 1:
        return _nonempty_iter(expr.args[0], funcnode)
    outs = origins(expr, funcnode)
    if not outs:
        return False
    for o in outs:
        if isinstance(o, ast.List) and o.elts:
            continue
        if isinstance(o, ast.Call) and call_attr(o) == 'split':
            continue
        return False
    return True


@rule('C16.R1', min_instances=6)
def transaction_region(ctx):
    """flush -> send -> receive inside one lock region, path-sensitive ordering"""
    m = ctx.m
    n = 0
    for q in _comm_classes(m):
        ci = m.classes[q]
        f = ci.methods.get('communicate')
        if f is None:
            continue
        flushes = _conn_calls(f.node, {'flush_recv'})
        sends = _conn_calls(f.node, {'send'})
        recvs = _conn_calls(f.node, {'readline', 'readbytes'})
        if not sends:
            continue   # abstract base (returns NotImplementedError)
        n += 1
        ctx.analysed(f)
        for kind, calls in (('flush', flushes), ('send', sends), ('receive', recvs)):
            for c in calls:
                ctx.check(in_lock(c, '_lock'), f'{f.qualname}:{kind} inside _lock', c, 'inside `with self._lock`',
                          f'the {kind} happens outside the communicator lock: another thread can interleave its traffic', f)
        if not flushes:
            ctx.bad(f'{f.qualname}:flush before send', f.node, 'communicate never flushes the receive buffer: a late or '
                    'unsolicited reply is returned as the reply of the next command', f)
            continue
        cfg = CFG(f.node, m, f.module)
        flush_ids = {i for c in flushes for i in cfg.node_of(c)}
        send_ids = {i for c in sends for i in cfg.node_of(c)}
        recv_ids = {i for c in recvs for i in cfg.node_of(c)}
        # tiny abstract store: locals that are None / unknown, plus flags flushed / sent, plus first-iteration flags
        none_vars = {t.id for x in body_walk(f.node) if isinstance(x, ast.Assign) and isinstance(x.value, ast.Constant)
                     and x.value.value is None for t in x.targets if isinstance(t, ast.Name)}

        def transfer(node, state):
            d = sdict(state)
            a = node.ast
            if node.id in flush_ids:
                d['flushed'] = True
                d['fresh'] = True       # nothing may be waited for between the flush and the next send
            if node.id in send_ids:
                d['sent'] = True
                d['fresh'] = False
            if isinstance(a, ast.Assign):
                for t in a.targets:
                    if isinstance(t, ast.Name) and t.id in none_vars:
                        d['v_' + t.id] = 'None' if isinstance(a.value, ast.Constant) and a.value.value is None else 'Top'
            if node.kind == 'stmt' and node.label == ' [for-iter]':
                d[f'it{node.id}'] = 0
            return sfreeze(d)

        def edge(node, label, sin, sout):
            if label == 'exc':
                return sin
            d = sdict(sout)
            if node.kind == 'test' and isinstance(node.ast, ast.expr):
                # `if nr and self.wait_before:` with nr the counter of enumerate(): zero in the first iteration
                for a, tv in facts_on_side(node.ast, label == 'T'):
                    if isinstance(a, ast.Name) and d.get('z_' + a.id) == 'zero' and tv:
                        return None
                    if isinstance(a, ast.Name) and d.get('z_' + a.id) == 'pos' and not tv:
                        return None
                    # `if number == 0:` / `if number > 0:` on the counter
                    if isinstance(a, ast.Compare) and len(a.ops) == 1 and isinstance(a.left, ast.Name) and d.get('z_' + a.left.id) in ('zero', 'pos') \
                            and isinstance(a.comparators[0], ast.Constant) and a.comparators[0].value == 0:
                        zero = d['z_' + a.left.id] == 'zero'
                        holds = {ast.Eq: zero, ast.NotEq: not zero, ast.Gt: not zero, ast.LtE: zero, ast.GtE: True, ast.Lt: False}.get(type(a.ops[0]))
                        if holds is not None and holds != tv:
                            return None
            if node.kind == 'test':
                for l, op, r in compare_ops(node.ast):
                    if r == 'None' and l in none_vars and op in ('is', 'isnot'):
                        known = d.get('v_' + l)
                        if known == 'None':
                            truth = op == 'is'
                            if (label == 'T') != truth:
                                return None
            if node.kind == 'for':
                # first arrival comes from the iter node (flag 0), later ones via the back edge (flag 1)
                key = next((k for k in d if k.startswith('it') and d[k] == 0), None)
                it_nodes = [p for p, lab in cfg.pred[node.id] if cfg.nodes[p].label == ' [for-iter]']
                flag = f'it{it_nodes[0]}' if it_nodes else None
                if label == 'F' and flag and d.get(flag) == 0 and _nonempty_iter(node.ast.iter, f.node):
                    return None   # zero iterations are infeasible for a non-empty sequence
                if label == 'T' and flag:
                    it = node.ast.iter
                    tg = node.ast.target
                    if isinstance(it, ast.Call) and dotted(it.func) == 'enumerate' and len(it.args) == 1 and not it.keywords and \
                            isinstance(tg, ast.Tuple) and isinstance(tg.elts[0], ast.Name):
                        d['z_' + tg.elts[0].id] = 'zero' if d.get(flag) == 0 else 'pos'
                    d[flag] = 1
                return sfreeze(d)
            return sout

        ins = forward_paths(cfg, {sfreeze({'flushed': False, 'sent': False})}, transfer, edge)
        for c in sends:
            bad = [s for i in cfg.node_of(c) for s in ins.get(i, ()) if not sdict(s).get('flushed')]
            ctx.check(not bad, f'{f.qualname}:flush before send', c, 'on every feasible path a flush precedes the send',
                      'a path reaches the send without flushing stale input first: a late or unsolicited reply is returned '
                      'as the reply of this command', f)
        sleeps = {i for c in calls_in(f.node) if call_name(c) in ('time.sleep', 'sleep') for i in cfg.node_of(c)}
        waited = [i for i in sleeps for st in ins.get(i, ()) if sdict(st).get('fresh')]
        ctx.check(not waited, f'{f.qualname}:no wait between flush and send', f.node, 'the flush immediately precedes the send',
                  'a sleep lies between the flush of stale input and the send: a late or unsolicited line arriving during that wait is returned as '
                  'the reply of this command', f)
        for c in calls_in(f.node):
            if call_attr(c) in ('getFullReply', 'readBytes') and dotted(c.func.value) == 'self':
                ctx.check(in_lock(c, '_lock'), f'{f.qualname}:{call_attr(c)} inside _lock', c, 'the remaining reply bytes are read inside the lock region',
                          f'`{src(c)}` (which may read the rest of a variable length reply) runs outside the communicator lock: another thread '
                          'flushes these bytes as garbage and this caller consumes the other reply', f)
        for c in recvs:
            bad = [s for i in cfg.node_of(c) for s in ins.get(i, ()) if not sdict(s).get('sent')]
            ctx.check(not bad, f'{f.qualname}:send before receive', c, 'on every feasible path a send precedes the receive',
                      'a path reaches the receive without having sent the command', f)
    if n < 2:
        raise AnchorMissing('communicate of StringIO / BytesIO not found')


@rule('C16.R2', min_instances=4)
def multicomm_transactions(ctx):
    """multicomm: loop inside the _lock region, delay slept inside the loop body (sibling agreement)"""
    m = ctx.m
    n = 0
    for q in _comm_classes(m):
        f = m.classes[q].methods.get('multicomm')
        if f is None:
            continue
        n += 1
        ctx.analysed(f)
        loops = [x for x in body_walk(f.node) if isinstance(x, ast.For) and any(call_attr(c) in ('communicate', 'writeline') for c in calls_in(x))]
        if not loops:
            ctx.undecided(f'{f.qualname}:request loop', f.node, 'no loop calling communicate found', f)
            continue
        for l in loops:
            ctx.check(in_lock(l, '_lock'), f'{f.qualname}:request loop inside _lock', l, 'the whole transaction holds the lock',
                      'the loop over the requests is not inside the communicator lock: other traffic can interleave the transaction', f)
            # delay variable: element of the loop target named *delay*
            dvars = {x.id for x in ast.walk(l.target) if isinstance(x, ast.Name) and 'delay' in x.id}
            dvars |= {t.id for x in walk_local(l) if isinstance(x, ast.Assign) for tt in x.targets for t in ast.walk(tt)
                      if isinstance(t, ast.Name) and 'delay' in t.id}
            sleeps = [c for c in calls_in(f.node) if call_name(c) in ('time.sleep', 'sleep') and c.args and names_in(c.args[0]) & dvars]
            if not sleeps:
                ctx.bad(f'{f.qualname}:delay honoured per request', l, 'the delay of a request is never slept', f)
            for c in sleeps:
                inside = any(a is l for a in ancestors(c))
                ctx.check(inside, f'{f.qualname}:delay honoured per request', c, 'time.sleep(delay) is inside the request loop',
                          'time.sleep(delay) is outside the loop over the requests: only the delay of the last request is '
                          'honoured (and an empty request list raises NameError)', f)
    if n < 2:
        raise AnchorMissing('multicomm of StringIO / BytesIO not found')


@rule('C16.R3', min_instances=1)
def rate_limiter_state(ctx):
    """the guard `now >= self.<attr> + interval` is worth something only if self.<attr> is stored BEFORE the reconnect attempt it
    guards: the store dominates the attempt (a second caller arriving while the attempt is still blocking then finds the new
    stamp and fails at once; a store after the attempt - in a finally - lets every such caller make an attempt of its own)"""
    m = ctx.m
    f = m.method(IOBASE, 'check_connection', inherited=False)
    ctx.analysed(f)
    cfg = CFG(f.node, m, f.module)
    found = 0
    attrs = set()
    for t in cfg.nodes:
        if t.kind == 'test' and not isinstance(t.ast, ast.stmt) and any(isinstance(x, ast.Compare) for x in ast.walk(t.ast)):
            attrs |= {x.attr for x in ast.walk(resolved(t.ast, f.node)) if isinstance(x, ast.Attribute) and dotted(x.value) == 'self' and 'last' in x.attr}
    attempt = [c for c in calls_in(f.node) if call_attr(c) in ('read_is_connected', 'connectStart')]
    aids = [i for c in attempt for i in cfg.node_of(c)]
    for attr in sorted(attrs):
        found += 1
        stores = [s_ for t_, v, s_ in attr_stores(f.node) if t_.attr == attr and dotted(t_.value) == 'self']
        sids = [i for s_ in stores for i in cfg.node_of(s_)]
        ok = bool(sids) and bool(aids) and all(cfg.dominates(sids, i) for i in aids)
        dead = [x.id for x in body_walk(f.node) if isinstance(x, ast.Name) and isinstance(x.ctx, ast.Store) and x.id == attr]
        ctx.check(ok, f'{f.qualname}:rate limit state self.{attr} updated', stores[0] if stores else f.node,
                  f'self.{attr} is stored before the reconnect attempt',
                  (f'the guard reads self.{attr} but it is never stored' + (f' (the local `{attr}` is assigned instead, which is never read)' if dead else '')
                   if not sids else f'`{src(stores[0])}` does not come before the reconnect attempt on every path (it follows it): while one attempt is blocking, every '
                   'other caller still sees the old stamp and makes an attempt of its own') +
                  ': the reconnect rate is not limited', f)
    if not found:
        raise AnchorMissing('rate limit guard (comparison with self._last_connect_attempt) not found in check_connection', violation='frappy.io.IOBase.check_connection:rate limit guard present')


def lexpos(node):
    return (node.lineno, node.col_offset)


@rule('C16.R4', min_instances=3)
def disconnect_handling(ctx):
    """ConnectionClosed handlers call closeConnection and raise CommunicationFailedError; closeConnection resets state"""
    m = ctx.m
    n = 0
    for q in _comm_classes(m):
        for f in m.classes[q].methods.values():
            for node in body_walk(f.node):
                if isinstance(node, ast.ExceptHandler) and node.type is not None and 'ConnectionClosed' in (handler_type_names(node) or []):
                    n += 1
                    ctx.analysed(f)
                    closes = any(call_attr(c) == 'closeConnection' for st in node.body for c in calls_in(st))
                    raises = [d for d, r in __import__('sa.lib', fromlist=['raised_names']).raised_names(node.body)]
                    ok = closes and raises and all(r and m.is_subclass(m.resolve_name(f.module, r) or r, 'frappy.errors.CommunicationFailedError') for r in raises)
                    ctx.check(ok, f'{f.qualname}:ConnectionClosed handler', node, 'closeConnection() + raise CommunicationFailedError',
                              'a ConnectionClosed handler does not close the connection and raise a CommunicationFailedError: '
                              'the connection state stays "connected" and no reconnect is attempted', f)
    cc = m.method(IOBASE, 'closeConnection', inherited=False)
    ctx.analysed(cc)
    st = {t.attr: v for t, v, s in attr_stores(cc.node) if dotted(t.value) == 'self'}
    ok = isinstance(st.get('is_connected'), ast.Constant) and st['is_connected'].value is False and \
        isinstance(st.get('_conn'), ast.Constant) and st['_conn'].value is None
    ctx.check(ok, f'{cc.qualname}:resets connection state', cc.node, 'is_connected = False, _conn = None',
              'closeConnection does not reset is_connected and _conn', cc)
    ctx.check(any(call_attr(c) == 'disconnect' for c in calls_in(cc.node)), f'{cc.qualname}:disconnects', cc.node, 'calls _conn.disconnect()',
              'closeConnection does not disconnect the underlying connection', cc)
    if n < 2:
        raise AnchorMissing('ConnectionClosed handlers in frappy/io.py not found')


def _buffers(f):
    """source texts of the expressions holding the receive buffer in a reader: self._rxbuffer and locals bound to it"""
    names = {'self._rxbuffer'}
    for n in body_walk(f.node):
        if isinstance(n, ast.Assign) and src(n.value) in names:
            names |= {t.id for t in n.targets if isinstance(t, ast.Name)}
    return names


@rule('C16.R5', min_instances=4)
def framing(ctx):
    """readline / readbytes: (a) no received byte is dropped - what recv() delivered ends up in the persistent buffer, in the
    returned line or is shown to be empty, on every way out of the function (dataflow over the CFG, also for a reader that
    assembles the line in a local); (b) the terminator search finds the FIRST terminator and finds it when it straddles two
    chunks: split(eol, 1) / partition(eol) on the whole buffer, or find(eol, start) with a start that steps back by
    len(eol) - 1; (c) readbytes hands out the first n bytes and keeps the rest"""
    m = ctx.m
    rl = m.method(ASYN, 'readline', inherited=False)
    rb = m.method(ASYN, 'readbytes', inherited=False)
    for f in (rl, rb):
        ctx.analysed(f)
        cfg = CFG(f.node, m, f.module)
        lost = received_bytes_lost(cfg, f.node, 'self._rxbuffer', lambda c: call_attr(c) == 'recv')
        if not any(call_attr(c) == 'recv' for c in calls_in(f.node)):
            raise AnchorMissing(f'recv() call not found in AsynConn.{f.name}')
        for st, names in lost:
            ctx.bad(f'{f.qualname}:appends received data', st if st is not None else f.node,
                    f'the function is left through `{src(st)[:70] if st is not None else "its end"}` while {names} still hold(s) received bytes that were neither '
                    'appended to self._rxbuffer nor returned: the beginning of a reply that arrives in two segments is lost, the rest is taken for a line of its own', f)
        if not lost:
            ctx.ok(f'{f.qualname}:appends received data', f.node, 'every received byte reaches self._rxbuffer or the returned value on every way out', f)
    bufs = _buffers(rl)
    eolnames = {'self.end_of_line'} | {t.id for n in body_walk(rl.node) if isinstance(n, ast.Assign) and src(n.value) == 'self.end_of_line'
                                       for t in n.targets if isinstance(t, ast.Name)}
    def on_buffer(c):
        v = c.func.value
        if isinstance(v, ast.Subscript) and isinstance(v.slice, ast.Slice) and v.slice.upper is None and v.slice.lower is not None:
            return src(v.value) in bufs      # buffer[start:].partition(eol): an incremental search
        return src(v) in bufs
    searches = [c for c in calls_in(rl.node) if call_attr(c) in ('split', 'partition', 'find', 'index') and on_buffer(c)
                and c.args and src(c.args[0]) in eolnames]
    if not searches:
        ctx.undecided(f'{rl.qualname}:split at first end_of_line', rl.node, 'terminator search not recognised', rl)
    for c in searches:
        kind = call_attr(c)
        sliced = c.func.value.slice.lower if isinstance(c.func.value, ast.Subscript) else None
        if sliced is not None:
            kind = 'find'       # decided like find(eol, start)
            startexpr = sliced
        else:
            startexpr = c.args[1] if len(c.args) > 1 else None
        if kind == 'split':
            ok = len(c.args) == 2 and isinstance(c.args[1], ast.Constant) and c.args[1].value == 1
            ctx.check(ok, f'{rl.qualname}:split at first end_of_line', c, 'split(eol, 1)',
                      f'`{src(c)}` splits at every end_of_line: with two lines in the buffer the unpacking fails / the second line is lost', rl)
        elif kind == 'partition':
            ctx.ok(f'{rl.qualname}:split at first end_of_line', c, 'partition(eol)', rl)
        elif startexpr is None:
            ctx.ok(f'{rl.qualname}:split at first end_of_line', c, f'{kind}(eol) over the whole buffer', rl)
        else:
            start = resolved(startexpr, rl.node)
            t = src(start)
            # all bindings of the start variable (it is re-bound in the loop)
            cands = [t]
            if isinstance(startexpr, ast.Name):
                cands = [src(v) for v, st, how in local_assigns(rl.node, startexpr.id) if v is not None]
            steps_back = [x for x in cands if 'len(' in x and any(f'len({e})' in x for e in eolnames) and '-' in x]
            plain = [x for x in cands if x.startswith('len(') and x.endswith(')') and x[4:-1] in bufs]
            if plain:
                ctx.bad(f'{rl.qualname}:split at first end_of_line', c, f'`{src(c)}` resumes the search at `{plain[0]}`, the full length already scanned: a '
                        'terminator of more than one byte (\'\\r\\n\') that straddles two chunks is never found - the reply runs into the time-out or is merged with the next line', rl)
            elif steps_back or all(x in ('0',) for x in cands):
                ctx.ok(f'{rl.qualname}:split at first end_of_line', c, f'search resumes at {cands}', rl)
            else:
                ctx.undecided(f'{rl.qualname}:split at first end_of_line', c, f'start offset {cands} not decided', rl)
    # the decision "a complete line is there" looks at the whole buffer, not at the chunk that was just received
    chunks = {t.id for n in body_walk(rl.node) if isinstance(n, ast.Assign) and isinstance(n.value, ast.Call) and call_attr(n.value) == 'recv'
              for t in n.targets if isinstance(t, ast.Name)}
    for t in [x for n in body_walk(rl.node) if isinstance(n, (ast.If, ast.While)) for x in ast.walk(n.test)]:
        hit = None
        if isinstance(t, ast.Compare) and len(t.ops) == 1 and isinstance(t.ops[0], (ast.In, ast.NotIn)) and src(t.left) in eolnames \
                and isinstance(t.comparators[0], ast.Name) and t.comparators[0].id in chunks:
            hit = t
        if isinstance(t, ast.Call) and call_attr(t) in ('find', 'index', 'count', 'endswith') and isinstance(t.func.value, ast.Name) and t.func.value.id in chunks \
                and t.args and src(t.args[0]) in eolnames:
            hit = t
        if hit is not None:
            ctx.bad(f'{rl.qualname}:split at first end_of_line', hit, f'`{src(hit)}` looks for the terminator in the chunk that was just received, not in the buffer: '
                    'a terminator of more than one byte that straddles two chunks is never seen - the complete reply sits in the buffer until the time-out', rl)
    # the remainder after the line stays in the persistent buffer: some assignment to self._rxbuffer takes its value from the
    # split / partition result or from a slice behind the terminator
    keep = False
    for n in body_walk(rl.node):
        if isinstance(n, ast.Assign):
            tg = n.targets[0]
            if isinstance(tg, ast.Tuple) and any(src(e) == 'self._rxbuffer' for e in tg.elts):
                i = [src(e) for e in tg.elts].index('self._rxbuffer')
                rhs = n.value.elts[i] if isinstance(n.value, ast.Tuple) and len(n.value.elts) == len(tg.elts) else n.value
                keep = keep or not isinstance(rhs, ast.Constant)
            elif src(tg) == 'self._rxbuffer' and isinstance(n.value, (ast.Subscript, ast.Name)) and src(n.value) != "b''":
                keep = True
    ctx.check(keep, f'{rl.qualname}:remainder kept', rl.node, 'the part after the line is stored back into self._rxbuffer',
              'the remainder after the line is not stored back into the receive buffer', rl)
    take = [n for n in body_walk(rb.node) if isinstance(n, ast.Assign) and src(n.targets[0]) == 'self._rxbuffer'
            and isinstance(n.value, ast.Subscript) and isinstance(n.value.slice, ast.Slice)]
    ok = any(src(n.value.value) in _buffers(rb) and n.value.slice.lower is not None and n.value.slice.upper is None for n in take)
    ctx.check(ok, f'{rb.qualname}:remainder kept', rb.node, 'self._rxbuffer = self._rxbuffer[nbytes:]',
              'the bytes after the requested count are not kept in the buffer', rb)


def _returns_truthy(funcnode, m, module):
    """every normal exit returns a truthy constant (no implicit None)"""
    cfg = CFG(funcnode, m, module)
    for a, lab in cfg.pred[cfg.exit]:
        if a not in cfg.live_nodes():
            continue
        node = cfg.nodes[a].ast
        if isinstance(node, ast.Return) and node.value is not None:
            v = node.value
            if isinstance(v, ast.Constant) and bool(v.value):
                continue
            return False, f'`return {src(v)}`'
        return False, 'falls off the end (returns None)' if not isinstance(node, ast.Return) else '`return` without value'
    return True, ''


@rule('C16.R6', min_instances=2)
def reconnect_wakeup(ctx):
    """poll thread registers the re-trigger callback; framework callbacks return a true value"""
    m = ctx.m
    pt = roles.poll_thread(m)
    ctx.analysed(pt)
    regs = [c for c in calls_in(pt.node) if call_attr(c) == 'registerReconnectCallback']
    if not regs:
        ctx.bad(f'{pt.qualname}:registers reconnect callback', pt.node, 'the poll thread does not register a reconnect callback: '
                'after a reconnect the polls are not re-triggered', pt)
        return
    for c in regs:
        guarded = any(isinstance(a, ast.If) and 'registerReconnectCallback' in src(a.test) for a in ancestors(c))
        ctx.check(guarded, f'{pt.qualname}:registration guarded by hasattr', c, 'only communicators supporting reconnection',
                  'registration is not guarded: modules without registerReconnectCallback fail in the poll thread', pt)
    # all registrations in the framework
    n = 0
    for q, fi in m.functions.items():
        if not fi.module.name.startswith('frappy.') or fi.module.name.startswith('frappy.gui'):
            continue
        for c in calls_in(fi.node):
            if call_attr(c) != 'registerReconnectCallback' or len(c.args) < 2:
                continue
            cb = c.args[1]
            target = None
            if isinstance(cb, ast.Name) and cb.id in fi.nested:
                target = fi.nested[cb.id][0]
            elif isinstance(cb, ast.Attribute) and dotted(cb.value) == 'self' and fi.cls is not None and m.has_method(fi.cls.qualname, cb.attr):
                target = m.method(fi.cls.qualname, cb.attr)
            if target is None:
                ctx.undecided(f'{fi.qualname}:callback `{src(cb)}` returns true', c, 'callback not resolved', fi)
                continue
            n += 1
            ctx.analysed(target)
            ok, why = _returns_truthy(target.node, m, target.module)
            ctx.check(ok, f'{target.qualname}:reconnect callback returns true', target.node, 'every normal path returns a true value',
                      f'the callback {why}; callCallbacks removes a callback whose result is false - it runs after the first '
                      'reconnect only, from the second reconnect on it is gone', target)
    cc = m.method(IOBASE, 'callCallbacks', inherited=False)
    # the result of the callback decides about the removal: the call is used as a value (assigned / tested), and entries are popped
    cbcalls = [c for c in calls_in(cc.node) if isinstance(c.func, ast.Name) and not c.args and
               any(isinstance(a, ast.For) and c.func.id in {x.id for x in ast.walk(a.target) if isinstance(x, ast.Name)} for a in ancestors(c))]
    used = [c for c in cbcalls if not isinstance(getattr(c, 'parent', None), ast.Expr)]
    ok = bool(used) and any(call_attr(c) == 'pop' and '_reconnectCallbacks' in src(c.func) for c in calls_in(cc.node))
    ctx.check(ok, f'{cc.qualname}:drops callbacks returning false', cc.node, 'removeme = not cb()',
              'callCallbacks no longer has the documented removal semantics (rule R6 is about it)', cc)
    # every callback runs after a reconnect: a failing one is contained per callback (the try lies inside the loop)
    for c in cbcalls:
        loop = next((a for a in ancestors(c) if isinstance(a, ast.For)), None)
        per_cb = any(part == 'body' and any(handler_catches_all(h) and not handler_reraises(h) for h in t.handlers) and any(a is loop for a in ancestors(t))
                     for t, part in enclosing_tries(c))
        ctx.check(per_cb, f'{cc.qualname}:a failing callback does not stop the others', c, 'try/except Exception around the single call, inside the loop',
                  f'`{src(c)}` is not contained per callback: the first callback that raises ends the loop - the callbacks registered after it '
                  '(re-initialisation of other modules sharing the connection) do not run after this reconnect', cc)


@rule('C16.R7', min_instances=2)
def deadline_checked_every_cycle(ctx):
    """AsynConn.readline/readbytes: every cycle of the receive loop passes a deadline comparison or makes bounded progress"""
    m = ctx.m
    for name in ('readline', 'readbytes'):
        f = m.method(ASYN, name, inherited=False)
        ctx.analysed(f)
        cfg = CFG(f.node, m, f.module)
        ends = {t.id for n in body_walk(f.node) if isinstance(n, ast.Assign) and 'time.time()' in src(n.value) and 'timeout' in src(n.value)
                for t in n.targets if isinstance(t, ast.Name)}
        loops = [n for n in body_walk(f.node) if isinstance(n, ast.While) and any(call_attr(c) == 'recv' for c in calls_in(n))]
        if not loops or not ends:
            raise AnchorMissing(f'receive loop / deadline variable not found in AsynConn.{name}')
        for l in loops:
            # bounded progress form: while len(buf) < n  with buf += data in the body
            prog = False
            for left, op, right in compare_ops(l.test):
                if op == '<' and left.startswith('len(') and any(isinstance(x, ast.AugAssign) and f'len({src(x.target)})' == left for x in walk_local(l)):
                    prog = True
            if prog:
                ctx.ok(f'{f.qualname}:receive loop bounded', l, 'bounded progress: every data-carrying cycle moves len(buffer) towards the requested count; '
                       'empty cycles pass the deadline comparison', f)
                # still: the empty-data path must pass the comparison
            head = cfg.ids(l.test)
            cmp_nodes = {n.id for n in cfg.nodes if n.ast is not None and n.kind in ('test', 'stmt') and
                         any(isinstance(x, ast.Compare) and names_in(x) & ends for x in walk_local(n.ast))}
            # the comparison may be wrapped in a local closure: `expired = lambda: time.time() >= end` ... `expired()`
            checkers = set()
            for x in body_walk(f.node):
                if isinstance(x, ast.Assign) and len(x.targets) == 1 and isinstance(x.targets[0], ast.Name) and isinstance(x.value, ast.Lambda) and \
                        any(isinstance(y, ast.Compare) and names_in(y) & ends for y in ast.walk(x.value)):
                    checkers.add(x.targets[0].id)
            for lst in f.nested.values():
                for nf in lst:
                    if isinstance(nf.node, ast.FunctionDef) and any(isinstance(y, ast.Compare) and names_in(y) & ends for y in ast.walk(nf.node)):
                        checkers.add(nf.name)
            cmp_nodes |= {n.id for n in cfg.nodes if n.ast is not None and n.kind in ('test', 'stmt') and
                          any(isinstance(x, ast.Call) and isinstance(x.func, ast.Name) and x.func.id in checkers for x in walk_local(n.ast))}
            body_first = [b for h in head for b, lab in cfg.succ[h] if lab == 'T']
            # a cycle on which the caller gave no time-out (the flag guarding the deadline assignment tested false) has no deadline
            flags = {x.id for n in body_walk(f.node) if isinstance(n, ast.Assign) and any(isinstance(t, ast.Name) and t.id in ends for t in n.targets)
                     for a in ancestors(n) if isinstance(a, ast.If) for x in ast.walk(a.test) if isinstance(x, ast.Name)}

            # ... and so do names bound beside the deadline that are None when there is none (`expired = None` in the else branch)
            for n in body_walk(f.node):
                if isinstance(n, ast.Assign) and any(isinstance(t, ast.Name) and t.id in ends for t in n.targets):
                    for a in ancestors(n):
                        if isinstance(a, ast.If) and a.orelse:
                            flags |= {t.id for st in a.orelse if isinstance(st, ast.Assign) and isinstance(st.value, ast.Constant) and st.value.value is None
                                      for t in st.targets if isinstance(t, ast.Name)}

            def no_deadline(a, tv):
                return not tv and isinstance(a, ast.Name) and a.id in flags
            start = [b for b in body_first if b not in cmp_nodes]
            cyc = bool(set(start) & set(head)) or not paths_need_fact(cfg, start, head, no_deadline, avoid=cmp_nodes)
            if prog:
                # only cycles that do not append must pass the comparison
                app_nodes = {i for x in walk_local(l) if isinstance(x, ast.AugAssign) for i in cfg.node_of(x)}
                start = [b for b in body_first if b not in cmp_nodes and b not in app_nodes]
                cyc = bool(set(start) & set(head)) or not paths_need_fact(cfg, start, head, no_deadline, avoid=cmp_nodes | app_nodes)
            ctx.check(not cyc, f'{f.qualname}:deadline checked on every cycle', l,
                      'every cycle of the receive loop passes a comparison with the deadline' + (' or appends data' if prog else ''),
                      'a cycle of the receive loop (data received, but no end_of_line yet) never looks at the deadline: a device '
                      'that keeps sending bytes without the end_of_line blocks the caller - and the communicator lock - forever, '
                      'and the buffer grows without bound', f)


@rule('C16.R5b', min_instances=2)
def flush_empties_the_buffer_on_every_path(ctx):
    """every flush_recv implementation returns the buffered bytes AND clears the receive buffer on every path"""
    m = ctx.m
    n = 0
    for q in m.subclasses(ASYN):
        f = m.classes[q].methods.get('flush_recv')
        if f is None:
            continue
        n += 1
        ctx.analysed(f)
        cfg = CFG(f.node, m, f.module)
        stores = [i for t, v, s in attr_stores(f.node) if t.attr == '_rxbuffer' and isinstance(v, ast.Constant) and v.value == b'' for i in cfg.node_of(s)]
        ok = bool(stores) and cfg.all_paths_pass([cfg.entry], [cfg.exit], stores, exc=False)
        if bool(stores) and not ok:
            # ... or every way around the clearing store leaves a test on the side where the buffer was found empty (`if self._rxbuffer:`)
            ok = paths_need_fact(cfg, [cfg.entry], [cfg.exit], lambda a, tv: not tv and isinstance(a, ast.Attribute) and a.attr == '_rxbuffer' and dotted(a.value) == 'self',
                                 avoid=stores)
        ctx.check(ok, f'{f.qualname}:buffer cleared on every path', f.node, "self._rxbuffer = b'' on every normal path",
                  'a path through flush_recv returns without clearing the receive buffer (e.g. when nothing else is pending on the socket): stale '
                  'bytes stay buffered and are returned as the reply of the next command', f)
    if n < 2:
        raise AnchorMissing('flush_recv implementations not found')


@rule('C16.R4b', min_instances=4)
def connection_calls_are_guarded(ctx):
    """in communicate every call on the connection that can detect a closed connection (flush_recv, send, readline,
    readbytes) lies in a try with a ConnectionClosed handler (which closes the connection, R4)"""
    m = ctx.m
    n = 0
    for q in _comm_classes(m):
        f = m.classes[q].methods.get('communicate')
        if f is None:
            continue
        for c in _conn_calls(f.node, {'flush_recv', 'send', 'readline', 'readbytes'}):
            n += 1
            ctx.analysed(f)
            ok = any(part == 'body' and any('ConnectionClosed' in (handler_type_names(h) or []) for h in t.handlers) for t, part in enclosing_tries(c))
            ctx.check(ok, f'{f.qualname}:{call_attr(c)} guarded by a ConnectionClosed handler', c, 'inside try ... except ConnectionClosed',
                      f'`{src(c)}` is outside the try that handles ConnectionClosed: a disconnect detected there does not close the connection - '
                      'is_connected stays true and no reconnect is ever attempted', f)
    if n < 4:
        raise AnchorMissing('connection calls in communicate not found')


def _t16(test):
    neg = False
    t = test
    while isinstance(t, ast.UnaryOp) and isinstance(t.op, ast.Not):
        neg = not neg
        t = t.operand
    return t, neg


@rule('C16.R8', min_instances=8)
def calls_fail_or_return_a_reply(ctx):
    """communicate / multicomm of both communicators return a reply on every normal exit (an error handler that forgets to
    re-raise would hand None to the driver as if it were the device's answer) and start with check_connection(); the reply is
    read on the side where the command expects one; check_connection attempts the reconnect on the not-connected side, within
    the rate limit, and raises 'disconnected' when it did not succeed; in AsynConn.readline / readbytes the side of every
    deadline test on which the time is up raises TimeoutError (it neither loops on nor returns)"""
    m = ctx.m
    for cname in ('StringIO', 'BytesIO'):
        for meth in ('communicate', 'multicomm'):
            f = m.method(f'frappy.io.{cname}', meth, inherited=False)
            ctx.analysed(f)
            cfg = CFG(f.node, m, f.module)
            ctx.check(not can_end_without_value(cfg, f.node, explicit_none_ok=True), f'{f.qualname}:returns a reply or raises', f.node, 'every normal exit returns the reply',
                      f'{cname}.{meth} can end without returning a reply (a handler that does not re-raise / a deleted return): the driver gets None as the answer', f)
            if meth == 'communicate':
                # the returned reply is what was read from the device for this command (StringIO: decoded)
                rets = [r for r in body_walk(f.node) if isinstance(r, ast.Return) and r.value is not None and not (isinstance(r.value, ast.Constant) and r.value.value is None)]
                prov = []
                for r in rets:
                    os_ = origins(r.value, f.node) if isinstance(r.value, ast.Name) else [r.value]
                    prov += [src(o) for o in os_]
                txt = ' '.join(prov)
                okp = bool(rets) and ('readline' in txt or 'readbytes' in txt or 'getFullReply' in txt or '.decode(' in txt)
                if cname == 'StringIO':
                    okp = okp and '.decode(' in txt
                ctx.check(okp, f'{f.qualname}:returns the reply read for this command', f.node, f'returned value comes from {txt[:80]}',
                          f'{cname}.communicate does not return the (decoded) line read from the device: found {prov or "no return with a value"}', f)
                chk = [i for c in calls_in(f.node) if call_attr(c) == 'check_connection' for i in cfg.node_of(c)]
                snd = [i for c in calls_in(f.node) if call_attr(c) == 'send' for i in cfg.node_of(c)]
                ctx.check(bool(chk) and bool(snd) and all(cfg.dominates(chk, i) for i in snd), f'{f.qualname}:connection checked before sending', f.node,
                          'check_connection() dominates the send', 'the command is sent without check_connection(): a dropped connection is never re-established and the '
                          'call does not fail with the disconnected error', f)
                for t in cfg.nodes:
                    if t.kind == 'test' and src(_t16(t.ast)[0]) == 'noreply':
                        neg = _t16(t.ast)[1]
                        reads = {i for c in calls_in(f.node) if call_attr(c) in ('readline', 'readbytes') for i in cfg.node_of(c)}
                        side = cfg.reach([t.id], labels={'T' if neg else 'F'}, avoid=[t.id])      # reply expected
                        other = cfg.reach([t.id], labels={'F' if neg else 'T'}, avoid=[t.id])
                        if reads and not (reads & (side | other)):
                            continue        # a second test of the flag behind the read (decoding / logging of the reply): decides nothing about reading
                        ctx.check(bool(reads) and bool(reads & side) and not (reads & other - side), f'{f.qualname}:reply read iff one is expected', t.ast,
                                  'readline on the side where noreply is false',
                                  f'`{src(t.ast)}`: the reply is read only for commands that have none (time-out) and not for those that have one (the reply stays in '
                                  'the buffer and is flushed as garbage by the next call)', f)
    cc = m.method('frappy.io.IOBase', 'check_connection', inherited=False)
    ctx.analysed(cc)
    cfg = CFG(cc.node, m, cc.module)
    att = {i for c in calls_in(cc.node) if call_attr(c) == 'read_is_connected' for i in cfg.node_of(c)}
    for t in cfg.nodes:
        if t.kind != 'test':
            continue
        core, neg = _t16(t.ast)
        s = src(core)
        if s == 'self.is_connected':
            side = cfg.reach([t.id], labels={'T' if neg else 'F'}, avoid=[t.id])       # not connected
            other = cfg.reach([t.id], labels={'F' if neg else 'T'}, avoid=[t.id])
            ok = bool(att) and att <= side and not (att & other - side) and side_never_completes(cfg, t.id, 'T' if neg else 'F') is False
            raises = {i for x in body_walk(cc.node) if isinstance(x, ast.Raise) for i in cfg.ids(x)}
            ctx.check(bool(att) and att <= side and bool(raises) and raises <= side, f'{cc.qualname}:reconnect and failure on the not-connected side', t.ast,
                      'attempt and raise lie on the side where is_connected is false',
                      f'`{src(t.ast)}`: a connected communicator raises "disconnected" / a disconnected one is used without reconnect attempt', cc)
        if 'read_is_connected' in s:
            good = cfg.reach([t.id], labels={'F' if neg else 'T'}, avoid=[t.id])
            bad_ = [b for b, lab in cfg.succ[t.id] if lab == ('T' if neg else 'F')]
            rets = {i for x in body_walk(cc.node) if isinstance(x, ast.Return) for i in cfg.ids(x)}
            ok = (bool(rets & good) or cfg.exit in good) and side_never_completes(cfg, t.id, 'T' if neg else 'F')      # (a return, or the end of the method)
            ctx.check(ok, f'{cc.qualname}:a failed reconnect raises', t.ast, 'return on success, raise otherwise',
                      f'`{src(t.ast)}`: a failed reconnect attempt returns normally (the command is sent into a closed connection) / a successful one raises', cc)
    for meth in ('readline', 'readbytes'):
        f = m.method('frappy.lib.asynconn.AsynConn', meth, inherited=False)
        ctx.analysed(f)
        cfg = CFG(f.node, m, f.module)
        n = 0
        deadlines = {x.targets[0].id for x in body_walk(f.node) if isinstance(x, ast.Assign) and isinstance(x.targets[0], ast.Name)
                     and any(isinstance(b, ast.BinOp) and isinstance(b.op, ast.Add) and 'time.time()' in src(b) for b in ast.walk(x.value))}
        # a flag that remembers "the time is up" for the next cycle: `expired = deadline is not None and time.time() >= deadline`
        flags = {}
        for x in body_walk(f.node):
            if isinstance(x, ast.Assign) and isinstance(x.targets[0], ast.Name) and not isinstance(x.value, ast.Constant):
                for sub in (x.value.values if isinstance(x.value, ast.BoolOp) and isinstance(x.value.op, ast.And) else [x.value]):
                    for l, op, r in compare_ops(sub):
                        if op in ('<', '<=') and 'time.time()' in (l, r) and (set((l, r)) & deadlines):
                            flags[x.targets[0].id] = (l in deadlines)       # True: the flag means "time is up"
        for t in cfg.nodes:
            if t.kind != 'test':
                continue
            core, neg = _t16(t.ast)
            if isinstance(core, ast.Name) and core.id in flags:
                n += 1
                label = 'T' if (flags[core.id] != neg) else 'F'
                ctx.check(side_never_completes(cfg, t.id, label) and
                          not ({x.id for x in cfg.nodes if x.kind == 'test' and isinstance(getattr(x.ast, 'cfg_owner', None), ast.While)} &
                               cfg.reach([t.id], labels={label}, avoid=[t.id], exc=False)),
                          f'{f.qualname}:expired deadline raises', t.ast, f'`{src(t.ast)}`: the time-is-up side raises TimeoutError',
                          f'`{src(t.ast)}`: on the side where the time is up the loop goes on (or returns) instead of raising', f)
                continue
            parts = core.values if isinstance(core, ast.BoolOp) and isinstance(core.op, ast.And) else [core]
            for sub in parts:
                for l, op, r in compare_ops(sub):
                    if op in ('<', '<=') and 'time.time()' in (l, r) and (set((l, r)) & deadlines):
                        # normalised l < r : time.time() < end means "time left";  end <= time.time() means "time is up"
                        up_true = (l in deadlines) != neg if len(parts) == 1 else (l in deadlines)
                        label = 'T' if up_true else 'F'
                        if len(parts) > 1 and neg:
                            continue
                        n += 1
                        heads = {x.id for x in cfg.nodes if x.kind == 'test' and isinstance(getattr(x.ast, 'cfg_owner', None), ast.While)}
                        # on the side where the time is up every path raises - or leaves a test on the side where it found the
                        # terminator in the buffer (the line is complete, the next cycle returns it)

                        def complete(a, tv):
                            return isinstance(a, ast.Compare) and len(a.ops) == 1 and 'end_of_line' in src(a.left) and \
                                ((isinstance(a.ops[0], ast.In) and tv) or (isinstance(a.ops[0], ast.NotIn) and not tv))
                        first = [b for b, lab in cfg.succ[t.id] if lab == label]
                        ok = bool(first) and not (set(first) & (heads | {cfg.exit})) and paths_need_fact(cfg, first, heads | {cfg.exit}, complete)
                        loops_on = False
                        ctx.check(ok and not loops_on, f'{f.qualname}:expired deadline raises', t.ast, f'`{src(t.ast)}`: the time-is-up side raises TimeoutError',
                                  f'`{src(t.ast)}`: on the side where the time is up the loop goes on (or returns) instead of raising: a silent device blocks the caller '
                                  '(and the communicator lock) beyond its time-out', f)
        if n < 1 and deadlines:
            ctx.undecided(f'{f.qualname}:expired deadline raises', f.node, f'the deadline {sorted(deadlines)} is computed, but its comparison was not recognised', f)
        elif n < 1 and any(isinstance(a, ast.Name) and a.id == 'timeout' for c in calls_in(f.node) for a in list(c.args) + [k.value for k in c.keywords]
                           if not (isinstance(c.func, ast.Attribute) and c.func.attr in ('recv', 'wait', 'select'))):
            ctx.undecided(f'{f.qualname}:expired deadline raises', f.node, 'the time-out is handed to a helper (object) that keeps the deadline: not followed', f)
        elif n < 1:
            ctx.bad(f'{f.qualname}:expired deadline raises', f.node, 'no comparison of time.time() with the deadline in the receive loop', f)


@rule('C16.R9', min_instances=1)
def reconnect_callbacks_are_walked_over_a_snapshot(ctx):
    """cross-cutting family (common.iterate_while_mutating) on frappy.io / asynconn: the reconnect callbacks are called from a
    loop that removes the ones to be cleared - over the live dict that ends with RuntimeError in the middle of a successful
    reconnect: the callbacks registered later (trigger_polls) never run, polling does not resume"""
    from sa.rules import common
    common.iterate_while_mutating(ctx, {'frappy.io', 'frappy.lib.asynconn'})


@rule('C16.R11', min_instances=2)
def nothing_lazy_leaves_the_communicator_lock(ctx):
    """frappy.io: what is computed inside `with self._lock:` is computed there.  A lazy iterator created inside the region
    (`map(step, requests)`, `filter(...)`, a generator expression) and consumed after the region is left performs its
    communicate() calls WITHOUT the lock: the requests of a multicomm transaction interleave with other traffic"""
    m = ctx.m
    n = 0
    LAZY = ('map', 'filter', 'zip')
    for q, f in sorted(m.functions.items()):
        if f.module.name != 'frappy.io' or f.cls is None:
            continue
        for w in [x for x in body_walk(f.node) if isinstance(x, ast.With) and any('_lock' in src(i.context_expr) for i in x.items)]:
            n += 1
            ctx.analysed(f)
            inside = {id(x) for x in ast.walk(w)}
            bad_ = []
            for st in walk_local(w):
                lazy = None
                if isinstance(st, (ast.Assign, ast.Return)) and st.value is not None:
                    v = st.value
                    if isinstance(v, ast.GeneratorExp) or (isinstance(v, ast.Call) and isinstance(v.func, ast.Name) and v.func.id in LAZY):
                        lazy = v
                if lazy is None or not any(isinstance(c, ast.Call) or isinstance(c, ast.Name) and c.id not in LAZY for c in ast.walk(lazy)):
                    continue
                if isinstance(st, ast.Return):
                    bad_.append(st)
                    continue
                names = {t.id for t in st.targets if isinstance(t, ast.Name)}
                if any(isinstance(x, ast.Name) and x.id in names and isinstance(x.ctx, ast.Load) and id(x) not in inside for x in body_walk(f.node)):
                    bad_.append(st)
            ctx.check(not bad_, f'{f.qualname}:no lazy iterator leaves the _lock region', bad_[0] if bad_ else w,
                      'everything created inside the region is evaluated there',
                      f'`{src(bad_[0]) if bad_ else ""}` only creates an iterator inside `with self._lock:`; its elements are computed where it is consumed - '
                      'after the lock was released: the steps of the transaction run unlocked and interleave with other threads\' traffic', f)
    if n < 2:
        raise AnchorMissing('`with self._lock:` regions not found in frappy.io')
