"""C17 - persistent parameters: crash-atomic, retried after failure, tolerant load"""
from sa.core import rule, prop_info
from sa.cfg import CFG
from sa.lib import *  # noqa: F401,F403
from sa.lib import attr_stores, func_calls, enclosing_tries, handler_catches_all, handler_reraises, origins
from sa.model import AnchorMissing, const_str, kwarg
from sa.typestate import forward, isinstance_facts

PM = 'frappy.persistent.PersistentMixin'

prop_info(
    'C17',
    'Decided: R1 the target file is only ever replaced by os.rename/os.replace of a completely written and closed '
    'temporary file (never opened for writing); R2 the "believed on disk" snapshot is updated only after the rename '
    'succeeded, so a failed save is retried; R3 the loaded JSON value is kind-checked (or error-contained) before it '
    'is used as a mapping and every per-entry import is inside a catch-all handler; R4 stored values are applied '
    'only when the configuration did not give one; R5 saving is deferred while configured writes are pending.',
    not_decided='value equality after reload; OS-level crash semantics (fsync is not modelled).')


def _save_func(m):
    ci = m.cls(PM)
    for fi in ci.methods.values():
        for c in calls_in(fi.node):
            if call_name(c) in ('os.rename', 'os.replace'):
                return fi, c
    # the replace may have been moved out of the class (a module level helper / context manager doing write-then-rename): then
    # the save path of the mix-in is no longer the unit these rules can decide - an analysis error, not a violation
    for q, fi in m.functions.items():
        if fi.module.name == ci.module.name and fi.cls is not ci and any(call_name(c) in ('os.rename', 'os.replace') for c in calls_in(fi.node)):
            raise AnchorMissing(f'the rename onto the persistent file lives in {fi.qualname.rpartition("persistent.")[2]}, outside PersistentMixin: '
                                'the save path is not decided in this form')
    raise AnchorMissing('no method of PersistentMixin renames a file (atomic replace missing)', violation='frappy.persistent.PersistentMixin:atomic replace by rename')


def _is_write_mode(call):
    mode = call.args[1] if len(call.args) > 1 else kwarg(call, 'mode')
    if mode is None:
        return False
    s = const_str(mode)
    if s is None:
        return True   # unknown mode: treat as write
    return any(ch in s for ch in 'wax+')


def _is_target(expr, funcnode):
    return any(src(o) == 'self.persistentFile' for o in origins(expr, funcnode))


@rule('C17.R1', min_instances=3)
def atomic_replace(ctx):
    """the target file is never opened for writing; data is written to a temporary file which is renamed
    over the target after the with-block that writes it was left"""
    m = ctx.m
    ci = m.cls(PM)
    save, rename = _save_func(m)
    for fi in ci.methods.values():
        for c in calls_in(fi.node):
            if call_name(c) in ('open', 'io.open') or (call_attr(c) == 'open' and isinstance(c.func, ast.Attribute)):
                if _is_write_mode(c) and c.args:
                    ctx.check(not _is_target(c.args[0], fi.node), f'{fi.qualname}:open for writing', c,
                              'a temporary path is opened for writing, not the target',
                              'the persistent file itself is opened for writing: a crash leaves a truncated/partial file', fi)
            if call_attr(c) in ('write_text', 'write_bytes') and isinstance(c.func, ast.Attribute):
                ctx.check(not _is_target(c.func.value, fi.node), f'{fi.qualname}:write_text on target', c,
                          'not the target', 'the persistent file is written in place', fi)
    ctx.analysed(save)
    ok_dst = len(rename.args) == 2 and _is_target(rename.args[1], save.node)
    ctx.check(ok_dst, f'{save.qualname}:rename onto target', rename, 'rename(tmp, target)',
              'the rename does not replace the persistent file', save)
    # rename after the with that writes the tmp file
    inside_with = False
    dumps = [c for c in calls_in(save.node) if call_name(c) in ('json.dump',)]
    for a in ancestors(rename):
        if isinstance(a, ast.With) and any(isinstance(it.context_expr, ast.Call) and call_name(it.context_expr) == 'open'
                                           for it in a.items):
            inside_with = True
    ctx.check(not inside_with, f'{save.qualname}:rename after close', rename,
              'the temporary file is closed before it is renamed',
              'os.rename happens while the temporary file is still open (inside the with block): unflushed data may be lost', save)
    cfg = CFG(save.node, m, save.module)
    for d in dumps:
        ok = all(cfg.dominates(cfg.node_of(d), r, exc=True) for r in cfg.node_of(rename))
        ctx.check(ok, f'{save.qualname}:dump before rename', d, 'the data is written before the rename on every path',
                  'a path reaches the rename without the data having been written', save)
    if not dumps:
        ctx.undecided(f'{save.qualname}:dump before rename', save.node, 'no json.dump call recognised', save)


@rule('C17.R2', min_instances=1)
def acknowledge_after_rename(ctx):
    """in the save path, the store to self.persistentData (the snapshot believed to be on disk) is dominated
    by the successful rename"""
    m = ctx.m
    save, rename = _save_func(m)
    ctx.analysed(save)
    cfg = CFG(save.node, m, save.module)
    stores = [t for t, v, st in attr_stores(save.node) if t.attr == 'persistentData' and dotted(t.value) == 'self']
    if not stores:
        # the snapshot may be updated by the caller: look for it in callers? -> undecided
        ctx.undecided(f'{save.qualname}:store persistentData', save.node, 'no store to self.persistentData in the save function', save)
        return
    rn = cfg.node_of(rename)
    for t in stores:
        ok = True
        for b in cfg.node_of(t):
            # every path entry -> store passes the rename, and via its normal continuation
            if not cfg.dominates(rn, b, exc=True):
                ok = False
            # the store must not be reachable from the rename's exceptional edge only
            for r in rn:
                exc_succ = [x for x, l in cfg.succ[r] if l == 'exc']
                norm = cfg.reach([r], avoid=set(), exc=True, labels={'n', 'T', 'F'})
                if b not in norm and b not in rn:
                    ok = False
        ctx.check(ok, f'{save.qualname}:store persistentData after rename', t,
                  'the snapshot is acknowledged only after the rename succeeded',
                  'self.persistentData is updated before the file has been written and renamed: when the save fails '
                  '(OSError), the next saveParameters sees no difference and never retries', save)


def _load_is_contained(ctx, m, f, loads):
    """reading the persistent file never prevents start-up: json.load (on a text file opened as UTF-8) raises JSONDecodeError
    for broken JSON, UnicodeDecodeError for a byte that is not UTF-8 and a plain ValueError for an absurdly long number - all
    ValueError subclasses; the handler around it has to cover ValueError (or Exception), not only JSONDecodeError"""
    for c in loads:
        cover = False
        narrow = None
        for t, part in enclosing_tries(c):
            if part != 'body':
                continue
            for h in t.handlers:
                names = handler_type_names(h) or ['*']
                if any(n.rpartition('.')[2] in ('*', 'Exception', 'BaseException', 'ValueError') for n in names) and not handler_reraises(h):
                    cover = True
                elif any('JSONDecodeError' in n or 'UnicodeDecodeError' in n for n in names):
                    narrow = h
        ctx.check(cover, f'{f.qualname}:a corrupt file is tolerated', c, 'json.load inside a handler for ValueError',
                  f'`{src(c)}` is guarded by `except {src(narrow.type) if narrow is not None and narrow.type is not None else "..."}` only: a persistent file with a byte that is '
                  'not valid UTF-8 (a flipped bit, a latin-1 hand edit) raises UnicodeDecodeError out of loadPersistentData - the module can not be created, the node does not start', f)


@rule('C17.R1d', min_instances=1)
def no_rename_of_an_open_file(ctx):
    """wherever frappy/persistent.py renames a temporary file onto its target (in the mix-in or in a helper / context manager
    it uses): the rename does not sit inside the `with open(<that file>, 'w')` block - the data would still be in the write
    buffer, the target would be replaced by an empty / partial file until the block ends (and for good when the process dies
    or the flush fails there)"""
    m = ctx.m
    mod = m.modules.get('frappy.persistent')
    n = 0
    for q, f in sorted(m.functions.items()):
        if f.module is not mod:
            continue
        for c in calls_in(f.node):
            if call_name(c) not in ('os.rename', 'os.replace', 'shutil.move') or not c.args:
                continue
            n += 1
            ctx.analysed(f)
            srcname = src(c.args[0])
            inside = [w for w in ancestors(c) if isinstance(w, ast.With) and any(
                isinstance(it.context_expr, ast.Call) and dotted(it.context_expr.func) == 'open' and it.context_expr.args
                and src(it.context_expr.args[0]) == srcname and _is_write_mode(it.context_expr) for it in w.items)]
            ctx.check(not inside, f'{f.qualname}:the temporary file is closed before it is renamed', c, 'rename outside the with-open block',
                      f'`{src(c)}` runs inside `with open({srcname}, ...)`: the file is renamed onto the persistent file before it is flushed and closed - a crash '
                      'right after the rename (or a failing close: disk full) leaves an empty or partial persistent file, the previous snapshot is gone', f)
    if not n:
        raise AnchorMissing('no rename onto the persistent file found in frappy/persistent.py', violation='frappy.persistent:atomic replace by rename')


@rule('C17.R3', min_instances=2)
def tolerant_load(ctx):
    """the value returned by json.load is RAW: using it as a mapping needs a dict kind guard or a covering handler;
    the per-entry import is inside a catch-all handler that does not re-raise"""
    m = ctx.m
    load = m.method(PM, 'loadPersistentData', inherited=False)
    ctx.analysed(load)
    cfg = CFG(load.node, m, load.module)
    loads = [c for c in calls_in(load.node) if call_name(c) in ('json.load', 'json.loads')]
    if not loads:
        # the reading was extracted into a helper method: it has to hand back a dict on every way out
        for site, h in helper_methods_called(m, load):
            hl = [c for c in calls_in(h.node) if call_name(c) in ('json.load', 'json.loads')]
            if not hl:
                continue
            ctx.analysed(h)
            hcfg = CFG(h.node, m, h.module)
            rd = ReachingDefs(hcfg, h.node)
            for r in [x for x in body_walk(h.node) if isinstance(x, ast.Return)]:
                v = r.value
                vals = [v.body, v.orelse] if isinstance(v, ast.IfExp) else [v]
                okr = True
                for e in vals:
                    if isinstance(e, ast.Dict) or (isinstance(e, ast.Call) and dotted(e.func) == 'dict'):
                        continue
                    guarded = isinstance(v, ast.IfExp) and e is v.body and any(en == src(e) and isin and set(k) <= {'dict', 'Mapping'}
                                                                              for en, k, isin in isinstance_facts(v.test, positive=True))
                    side = sides_with_fact(hcfg, lambda a, tv, e=e: tv and isinstance(a, ast.Call) and dotted(a.func) == 'isinstance' and len(a.args) == 2
                                           and src(a.args[0]) == src(e) and 'dict' in src(a.args[1]))
                    okr = okr and (guarded or (bool(hcfg.ids(r)) and set(hcfg.ids(r)) <= side))
                ctx.check(okr, f'{load.qualname}:use of loaded value (helper {h.name})', r, 'the helper returns a dict on every way out',
                          f'`{src(r)}` can hand back the unchecked result of json.load: a file containing a non-object JSON value ([], null, 1) '
                          'raises AttributeError in loadPersistentData and prevents start-up', h)
            _load_is_contained(ctx, m, h, hl)
            break
        else:
            raise AnchorMissing('json.load in loadPersistentData not found')
        imports = func_calls(load.node, attr='import_value')
        for c in imports:
            good = any(part == 'body' and any(handler_catches_all(hh) and not handler_reraises(hh) for hh in t.handlers) for t, part in enclosing_tries(c))
            ctx.check(good, f'{load.qualname}:per-entry import contained', c, 'an unusable entry is ignored individually',
                      'import_value of a stored entry is not inside a catch-all handler: one bad entry prevents start-up', load)
        return
    _load_is_contained(ctx, m, load, loads)
    # which expression holds the loaded value
    holders = set()
    for c in loads:
        st = enclosing_stmt(c)
        if isinstance(st, ast.Assign) and st.value is c:
            holders.update(src(t) for t in st.targets)
    if not holders:
        ctx.undecided(f'{load.qualname}:loaded value', load.node, 'json.load result is not assigned to a simple target', load)
        return

    def transfer(node, state):
        a = node.ast
        if isinstance(a, ast.Assign):
            for t in a.targets:
                ts = src(t)
                if ts in holders:
                    if isinstance(a.value, ast.Call) and call_name(a.value) in ('json.load', 'json.loads'):
                        state[ts] = 'RAW'
                    elif isinstance(a.value, ast.Dict) or (isinstance(a.value, ast.Call) and call_name(a.value) == 'dict'):
                        state[ts] = 'DICT'
                    else:
                        state[ts] = 'RAW'
        return state

    def edge(node, label, sin, sout):
        if label == 'exc':
            return sin
        if node.kind == 'test' and label in 'TF':
            s = dict(sout)
            for e, kinds, isinst in isinstance_facts(node.ast, positive=(label == 'T')):
                if e in holders and isinst and set(kinds) <= {'dict', 'Mapping', 'collections.abc.Mapping'}:
                    s[e] = 'DICT'
            return s
        return sout

    ins, outs = forward(cfg, {}, transfer, edge, join=lambda a, b: 'RAW' if 'RAW' in (a, b) else a)
    nuse = 0
    for node in cfg.stmt_nodes():
        if node.id not in ins:
            continue
        a = node.ast
        for n in walk_local(a) if not isinstance(a, (ast.For, ast.With, ast.ExceptHandler)) else []:
            if isinstance(n, ast.Attribute) and src(n.value) in holders and isinstance(n.ctx, ast.Load) \
                    and isinstance(getattr(n, 'parent', None), ast.Call) and n.parent.func is n:
                # method call on the loaded value: .items() .get() ...
                nuse += 1
                st = ins[node.id].get(src(n.value), 'DICT')
                covered = False
                for t, part in enclosing_tries(n):
                    if part == 'body':
                        for h in t.handlers:
                            names = {dotted(e) for e in (h.type.elts if isinstance(h.type, ast.Tuple) else [h.type])} if h.type else {'*'}
                            if (names & {'*', 'Exception', 'AttributeError'}) and not handler_reraises(h):
                                covered = True
                ctx.check(st == 'DICT' or covered, f'{load.qualname}:use of loaded value .{n.attr}', n,
                          'the loaded JSON value is known to be a dict here (or the use is error-contained)',
                          f'`{src(n.parent)}` is applied to the unchecked result of json.load: a file containing a '
                          'non-object JSON value ([], null, 1) raises AttributeError and prevents start-up', load)
    if not nuse:
        ctx.undecided(f'{load.qualname}:use of loaded value', load.node, 'no method call on the loaded value recognised', load)
    imports = func_calls(load.node, attr='import_value')
    for c in imports:
        good = False
        for t, part in enclosing_tries(c):
            if part == 'body' and any(handler_catches_all(h) and not handler_reraises(h) for h in t.handlers):
                good = True
        ctx.check(good, f'{load.qualname}:per-entry import contained', c,
                  'an unusable entry is ignored individually',
                  'import_value of a stored entry is not inside a catch-all handler: one bad entry prevents start-up', load)
    if not imports:
        raise AnchorMissing('import_value call in loadPersistentData not found')


@rule('C17.R4', min_instances=1)
def precedence(ctx):
    """in PersistentMixin.__init__ the restore from the loaded data is guarded by `not pobj.given`"""
    m = ctx.m
    init = m.method(PM, '__init__', inherited=False)
    ctx.analysed(init)
    loaded_names = set()
    for n in body_walk(init.node):
        if isinstance(n, ast.Assign) and isinstance(n.value, ast.Call) and call_attr(n.value) == 'loadPersistentData':
            loaded_names.update(t.id for t in n.targets if isinstance(t, ast.Name))
    if not loaded_names:
        raise AnchorMissing('loadPersistentData() result not found in PersistentMixin.__init__')
    found = 0
    for n in body_walk(init.node):
        if isinstance(n, ast.Subscript) and isinstance(n.value, ast.Name) and n.value.id in loaded_names \
                and isinstance(n.ctx, ast.Load):
            found += 1
            tests = [src(a.test) for a in ancestors(n) if isinstance(a, ast.If) and _in_body(a, n)]
            ok = any('not' in t and '.given' in t for t in tests)
            ctx.check(ok, f'{init.qualname}:restore guarded by not given', n,
                      'stored values are applied only when the configuration gave none',
                      'a stored value is applied without testing `given`: the configuration no longer takes precedence', init)
    if not found:
        ctx.undecided(f'{init.qualname}:restore', init.node, 'no use of the loaded data recognised', init)


def _in_body(ifnode, node):
    for st in ifnode.body:
        for x in ast.walk(st):
            if x is node:
                return True
    return False


@rule('C17.R5', min_instances=1)
def deferred_save(ctx):
    """saveParameters returns early while writeDict is non-empty (values not yet written to the hardware)"""
    m = ctx.m
    sp = m.method(PM, 'saveParameters', inherited=False)
    save, _ = _save_func(m)
    ctx.analysed(sp)
    cfg = CFG(sp.node, m, sp.module)
    calls = [c for c in calls_in(sp.node) if call_attr(c) == save.name or (call_attr(c) or '').endswith(save.name)]
    if not calls:
        raise AnchorMissing('saveParameters does not call the save function')
    tests = [n.id for n in cfg.nodes if n.kind == 'test' and 'writeDict' in src(n.ast)]
    for c in calls:
        ok = False
        for t in tests:
            t_reach = cfg.reach([t], labels={'T'}) if not src(cfg.nodes[t].ast).startswith('not ') else cfg.reach([t], labels={'F'})
            cids = set(cfg.node_of(c))
            if not (cids & t_reach) and all(cfg.dominates([t], x) for x in cids):
                ok = True
        ctx.check(ok, f'{sp.qualname}:save deferred while writes pending', c,
                  'no save happens while writeDict is non-empty',
                  'the save is not guarded by the pending-writes test: factory defaults read meanwhile may be saved', sp)


@rule('C17.R4b', min_instances=1)
def given_flag_is_set_for_every_configured_value(ctx):
    """Module._handle_writes marks a parameter as `given` whenever a value was given explicitly (configuration or Parameter
    argument) - that flag is what makes the configuration win over the stored value in PersistentMixin.__init__"""
    m = ctx.m
    hw = m.method('frappy.modulebase.Module', '_handle_writes', inherited=False)
    ctx.analysed(hw)
    stores = [(t, v, s) for t, v, s in attr_stores(hw.node) if t.attr == 'given' and isinstance(v, ast.Constant) and v.value is True]
    if not stores:
        raise AnchorMissing('pobj.given = True not found in Module._handle_writes', violation=f'{hw.qualname}:given flag set for explicit values')
    cfg = CFG(hw.node, m, hw.module)
    recv = {src(t.value) for t, v, s in stores}
    sids = [i for t, v, s in stores for i in cfg.node_of(s)]
    for r in sorted(recv):
        # with a value given (`<pobj>.value is None` false) no normal way through the method avoids the store
        env = {f'{r}.value is None': False}
        deciding = [(t, eval_under(t.ast, env, hw.node)) for t in cfg.nodes if t.kind == 'test' and not isinstance(t.ast, ast.stmt)]
        deciding = [(t, k) for t, k in deciding if k is not None]
        if not deciding:
            raise AnchorMissing(f'test of `{r}.value is None` not found in Module._handle_writes')
        ok = all(cfg.exit not in cfg.reach([t.id], avoid=[t.id] + sids, exc=False, labels={'T' if k else 'F'}) for t, k in deciding)
        ctx.check(ok, f'{hw.qualname}:given flag set for explicit values', stores[0][2], 'set on every path with an explicit value',
                  f'`{src(stores[0][2])}` is not reached on every path on which `{r}.value` is set: a persistent parameter without write method that is given in the '
                  'configuration is not marked as given - the stored value silently overrides the configured one at start-up', hw)


@rule('C17.R1b', min_instances=1)
def saved_text_is_encodable(ctx):
    """shared with C07.R6b: the persistent file is written through a strict UTF-8 text file, so json.dump keeps
    ensure_ascii at its default - otherwise one string value with an unpaired surrogate makes every later save fail"""
    from sa.rules import c07
    m = ctx.m
    ci = m.cls(PM)
    f = next((fi for name, fi in ci.methods.items() if any(call_name(c) in ('json.dump', 'json.dumps') for c in calls_in(fi.node))), None)
    if f is None:
        raise AnchorMissing('json.dump in PersistentMixin not found')
    ctx.analysed(f)
    if not c07.json_text_is_encodable(ctx, f, 'file writer'):
        raise AnchorMissing('json.dump in the save function not found')


@rule('C17.R1c', min_instances=1)
def temporary_file_is_private_to_the_module(ctx):
    """the temporary file a module writes its snapshot to is derived from that module's own persistent file name: a scratch file
    shared by the modules of a node lets an overlapping save of another module rename the file away while this one still
    writes through its open handle into (what is now) the other module's acknowledged snapshot"""
    m = ctx.m
    f, ren = _save_func(m)
    ctx.analysed(f)
    if not ren.args:
        raise AnchorMissing('rename without arguments')
    srcarg = ren.args[0]
    texts = [src(o) for o in (origins(srcarg, f.node) if isinstance(srcarg, ast.Name) else [srcarg])]
    # a self attribute defined elsewhere: follow its definition in the class
    for a in [x for x in ast.walk(srcarg)] + [x for o in (origins(srcarg, f.node) if isinstance(srcarg, ast.Name) else []) for x in ast.walk(o)]:
        if isinstance(a, ast.Attribute) and dotted(a.value) == 'self' and a.attr not in ('persistentFile',):
            for g in m.cls(PM).methods.values():
                texts += [src(v) for t, v, s in attr_stores(g.node) if t.attr == a.attr and v is not None]
    if isinstance(srcarg, ast.Name):
        # `with scratch_beside(target) as scratch:` - the path is made by a context manager from what it is given
        for v, st, how in local_assigns(f.node, srcarg.id):
            if how == 'with' and isinstance(v, ast.Call):
                texts += [src(resolved(a, f.node)) for a in list(v.args) + [k.value for k in v.keywords]]
    txt = ' '.join(texts)
    ok = 'persistentFile' in txt or 'self.name' in txt
    ctx.check(ok, f'{f.qualname}:temporary file derived from the module own file name', ren, f'`{txt[:100]}`',
              f'the temporary file `{src(srcarg)}` = {texts} does not depend on the module (its persistentFile / name): all persistent modules of the node write '
              'through the same path, overlapping saves corrupt each other snapshot', f)


@rule('C17.R6', min_instances=1)
def stored_values_are_tested_for_presence_not_truth(ctx):
    """restore paths (PersistentMixin.__init__ / loadParameters): whether there IS a stored value for a parameter is asked by
    membership or identity (`pname in loaded`, `is not MISSING`), never by the truth value of the stored value - False, 0, 0.0,
    '' and empty arrays are values a parameter can have been saved with; treated as missing they come back as the default and
    the closing save overwrites the good file"""
    m = ctx.m
    ci = m.cls(PM)
    n = 0
    for name in ('__init__', 'loadParameters'):
        f = ci.methods.get(name)
        if f is None:
            continue
        # the dict of stored values: the result of loadPersistentData(), or a local it was bound to
        tables = {t.id for x in body_walk(f.node) if isinstance(x, ast.Assign) and isinstance(x.value, ast.Call) and call_attr(x.value) == 'loadPersistentData'
                  for t in x.targets if isinstance(t, ast.Name)}
        if not tables:
            continue
        ctx.analysed(f)

        def from_table(e):
            return (isinstance(e, ast.Subscript) and isinstance(e.value, ast.Name) and e.value.id in tables) or \
                (isinstance(e, ast.Call) and call_attr(e) in ('get', 'pop') and isinstance(e.func.value, ast.Name) and e.func.value.id in tables)
        carriers = {x.targets[0].id for x in body_walk(f.node) if isinstance(x, ast.Assign) and len(x.targets) == 1 and isinstance(x.targets[0], ast.Name)
                    and from_table(x.value)}
        cfg = CFG(f.node, m, f.module)
        for t in cfg.nodes:
            if t.kind != 'test' or isinstance(t.ast, ast.stmt):
                continue
            for atom, tv in facts_on_side(t.ast, True) + facts_on_side(t.ast, False):
                if from_table(atom) or (isinstance(atom, ast.Name) and atom.id in carriers):
                    n += 1
                    ctx.bad(f'{f.qualname}:presence of a stored value is not decided by its truth', t.ast,
                            f'`{src(t.ast)}` takes a stored value that is falsy (False, 0, 0.0, \'\', an empty array, the enum member 0) for "nothing stored": '
                            'the parameter comes back as its default, the default is queued for the hardware and the save at the end of start-up overwrites the file', f)
        for x in body_walk(f.node):
            if isinstance(x, ast.BoolOp) and any(from_table(v) or (isinstance(v, ast.Name) and v.id in carriers) for v in x.values[:-1]):
                n += 1
                ctx.bad(f'{f.qualname}:presence of a stored value is not decided by its truth', x,
                        f'`{src(x)}` replaces a falsy stored value as if nothing was stored', f)
        uses = [x for x in body_walk(f.node) if from_table(x)]
        if uses:
            n += 1
            ctx.ok(f'{f.qualname}:stored values are read', uses[0], f'{len(uses)} reads of the stored values, none decided by truth value', f)
    if not n:
        raise AnchorMissing('no read of the stored values (loadPersistentData) found in PersistentMixin.__init__ / loadParameters')


@rule('C17.R7', min_instances=1)
def init_writes_are_taken_out_of_the_write_dict(ctx):
    """Module.writeInitParams (with its helpers) hands the values waiting in writeDict over and REMOVES them: saveParameters
    refuses to save while writeDict is not empty ("do not save before all values are written to the hardware") - an entry that
    is only read (`.get`, a subscript) stays there for ever, every later save returns early, the file goes stale silently"""
    m = ctx.m
    f = m.method('frappy.modulebase.Module', 'writeInitParams', inherited=False)
    ctx.analysed(f)
    units = [f] + [h for site, h in helper_methods_called(m, f)]
    n = 0
    for g in units:
        for x in body_walk(g.node):
            read_only = (isinstance(x, ast.Call) and call_attr(x) == 'get' and src(x.func.value) == 'self.writeDict') or \
                (isinstance(x, ast.Subscript) and isinstance(x.ctx, ast.Load) and src(x.value) == 'self.writeDict')
            taken = isinstance(x, ast.Call) and call_attr(x) in ('pop', 'popitem') and src(x.func.value) == 'self.writeDict'
            if not (read_only or taken):
                continue
            n += 1
            ctx.analysed(g)
            if taken:
                ctx.ok(f'{g.qualname}:the waiting value is taken out of writeDict', x, f'`{src(x)}`', g)
                continue
            gcfg = CFG(g.node, m, g.module)
            rem = [i for y in body_walk(g.node) if (isinstance(y, ast.Delete) and any('self.writeDict' in src(t) for t in y.targets)) or
                   (isinstance(y, ast.Call) and call_attr(y) in ('pop', 'clear') and src(y.func.value) == 'self.writeDict') for i in gcfg.node_of(y)]
            loop = next((a for a in ancestors(x) if isinstance(a, (ast.For, ast.While))), None)
            ends = [gcfg.exit] + (list(gcfg.ids(loop)) if loop is not None else [])
            # on every way from the read to the end of this round (the next item / the end of the function) the entry is removed
            removed_later = bool(rem) and gcfg.all_paths_pass(gcfg.node_of(x), ends, rem, exc=False)
            ctx.check(removed_later, f'{g.qualname}:the waiting value is taken out of writeDict', x, 'read and removed in the same function',
                      f'`{src(x)}` reads the waiting value and leaves it in writeDict: saveParameters() returns early as long as writeDict is not empty - from then on '
                      'neither an explicit nor an automatic save writes the file, the stored values go stale without any message', g)
    if not n:
        raise AnchorMissing('no access to self.writeDict found in writeInitParams')


@rule('C17.R8', min_instances=1)
def loading_restores_every_stored_parameter(ctx):
    """PersistentMixin.loadParameters: the loop that sets the restored values (`setattr(self, pname, value)`) runs over ALL
    stored values - what loadPersistentData() returned - and not over the subset that has a write_<param> method (that subset
    is only what has to be written to the hardware).  Otherwise a persistent parameter without write method keeps its old
    value after loading, and the next save overwrites the stored one"""
    m = ctx.m
    f = m.method(PM, 'loadParameters', inherited=False)
    ctx.analysed(f)
    loops = [l for l in body_walk(f.node) if isinstance(l, ast.For) and any(isinstance(c.func, ast.Name) and c.func.id == 'setattr' and c.args and src(c.args[0]) == 'self'
                                                                              for c in calls_in(l))]
    if not loops:
        raise AnchorMissing('the loop setting the restored values (setattr(self, pname, value)) not found in loadParameters')
    for l in loops:
        it = resolved(l.iter, f.node)
        filtered = [g for g in ast.walk(it) if isinstance(g, (ast.DictComp, ast.ListComp, ast.GeneratorExp, ast.SetComp)) and any(gen.ifs for gen in g.generators)]
        if filtered:
            ctx.bad(f'{f.qualname}:every stored value is set', l, f'the restored values are set from `{src(filtered[0])[:120]}`: only the parameters passing that filter get '
                    'their stored value back - a persistent parameter without write method is not restored, and the next save overwrites what was stored', f)
        elif 'loadPersistentData' in src(it):
            ctx.ok(f'{f.qualname}:every stored value is set', l, f'iterates `{src(it)[:80]}`', f)
        else:
            ctx.undecided(f'{f.qualname}:every stored value is set', l, f'`{src(it)[:80]}`: origin of the iterated values not recognised', f)


@rule('C17.R9', min_instances=9)
def stored_values_come_back_through_the_member_codec(ctx):
    """shared with C02.R2: what saveParameters writes is export_value() of each persistent parameter, what loadPersistentData
    applies is import_value() of the stored form - for container datatypes both have to go through the SAME-named method of
    the member datatypes (an array of scaled integers imported with the member's __call__ comes back multiplied by 1/scale, an
    array of blobs is dropped as unusable)"""
    from sa.rules import c02
    c02.container_delegation(ctx)


@rule('C17.R10', min_instances=3)
def an_empty_stored_value_comes_back(ctx):
    """shared with C02.R12: import_value of the sized types refuses by comparison with the declared limits only - `if not result:`
    after decoding refuses the empty blob / string / array that was saved, loadPersistentData drops the entry as unusable and
    the next save overwrites it with the default"""
    from sa.rules import c02
    c02.an_empty_value_is_not_refused_by_its_truth_value(ctx)
