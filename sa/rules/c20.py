"""C20 - logging: exact per-connection routing, rotation keeps the newest files"""
from sa.core import rule, prop_info
from sa.lib import *  # noqa: F401,F403
from sa.lib import compare_ops, func_calls, origins, local_assigns, _NEG
from sa.model import AnchorMissing
from sa import roles

RLH = 'frappy.logging.RemoteLogHandler'
LFH = 'frappy.logging.LogfileHandler'

prop_info(
    'C20',
    'Decided: R1 a log record is forwarded exactly under the (normalised) condition `subscribed level <= record level`, '
    'per (module, connection) entry; R2 switching off removes the entry of that connection only, other stores are '
    'keyed by the connection; R3 *IDN? and disconnect reach reset_connection, which switches all modules off for '
    'that connection; R4 on rollover, with the file list sorted ascending, only an oldest-prefix `[:-max_days]` is '
    'handed to os.remove, never a newest-suffix.',
    not_decided='directory contents with foreign files, level-name validation, repeated rotations on concrete dates.')


@rule('C20.R1', min_instances=1)
def level_filter(ctx):
    """send_log is reached exactly when record.levelno >= subscribed level (normalised, either polarity / continue form)"""
    m = ctx.m
    h = m.method(RLH, 'handle', inherited=False)
    ctx.analysed(h)
    cfg = CFG(h.node, m, h.module)
    sends = func_calls(h.node, attr='send_log')
    if not sends:
        raise AnchorMissing('send_log call in RemoteLogHandler.handle not found', violation='frappy.logging.RemoteLogHandler.handle:send_log present')
    # loop variable holding the subscribed level
    levvars = set()
    for n in body_walk(h.node):
        if isinstance(n, ast.For) and call_attr(n.iter) == 'items' and isinstance(n.target, ast.Tuple) and len(n.target.elts) == 2:
            if isinstance(n.target.elts[1], ast.Name):
                levvars.add(n.target.elts[1].id)
    tests = [n for n in cfg.nodes if n.kind == 'test' and isinstance(n.ast, ast.expr) and 'levelno' in src(resolved(n.ast, h.node))]
    for c in sends:
        ids = set(cfg.node_of(c))
        verdict = None
        for t in tests:
            ops = compare_ops(resolved(t.ast, h.node))
            if len(ops) != 1:
                continue
            l, op, r = ops[0]
            reach_t = cfg.reach([t.id], labels={'T'}, avoid=[t.id])
            reach_f = cfg.reach([t.id], labels={'F'}, avoid=[t.id])
            on_t, on_f = bool(ids & reach_t), bool(ids & reach_f)
            if on_t == on_f:
                continue
            if on_f:
                op = _NEG[op]
                if op in ('>', '>='):
                    op = {'>': '<', '>=': '<='}[op]
                    l, r = r, l
            verdict = (l, op, r)
        if verdict is None:
            # the receivers may be selected by a helper (a generator that yields the connections whose level is reached)
            helpers = [g for site, g in helper_methods_called(m, h) if 'levelno' in src(g.node, 9000)]
            if helpers:
                ctx.undecided(f'{h.qualname}:send_log guarded by level comparison', c, f'the level comparison lives in {helpers[0].qualname}', h)
                continue
            ctx.bad(f'{h.qualname}:send_log guarded by level comparison', c,
                    'send_log is not controlled by a comparison of record.levelno with the subscribed level', h)
            continue
        l, op, r = verdict
        ok = op == '<=' and r == 'record.levelno' and l in levvars
        ctx.check(ok, f'{h.qualname}:send_log guarded by level comparison', c,
                  f'forwarded iff {l} <= {r}',
                  f'forwarded iff `{l} {op} {r}`; required: <subscribed level of this connection> <= record.levelno', h)


@rule('C20.R2', min_instances=1)
def off_removes(ctx):
    """set_conn_level: on OFF the entry of conn is removed, otherwise subscriptions[conn] = level; keyed by conn"""
    m = ctx.m
    f = m.method(RLH, 'set_conn_level', inherited=False)
    ctx.analysed(f)
    cfg = CFG(f.node, m, f.module)
    offtests = [n for n in cfg.nodes if n.kind == 'test' and any(op in ('==', '!=') and 'OFF' in (l, r) for l, op, r in compare_ops(n.ast))]
    from sa.lib import deep_calls
    # (the removal may live in a helper method: the call of the helper stands for it)
    pops = [site for c, o, site in deep_calls(m, f, lambda c: call_attr(c) in ('pop',) and c.args and src(c.args[0]) == 'conn')]
    dels = [n for n in body_walk(f.node) if isinstance(n, ast.Delete) and any(isinstance(t, ast.Subscript) and src(t.slice) == 'conn' for t in n.targets)]
    stores = [n for n in body_walk(f.node) if isinstance(n, ast.Subscript) and isinstance(n.ctx, ast.Store)]
    # a refused request (invalid level name) has no effect at all: the level is checked before anything is removed or stored
    chk = [i for c in calls_in(f.node) if call_name(c) == 'check_level' or call_attr(c) == 'check_level' for i in cfg.node_of(c)]
    effects = [i for c in pops + dels for i in cfg.node_of(c)] + [i for s2 in stores for i in cfg.node_of(s2)]
    if chk and effects:
        ctx.check(all(cfg.dominates(chk, i) for i in effects), f'{f.qualname}:the level is validated before any effect', f.node,
                  'check_level dominates every removal / store', 'an entry is removed or stored before check_level(level) has accepted the request: a `logging` '
                  'request with an invalid level is answered with an error, but has already switched the logging of this connection off', f)
    if not offtests:
        ctx.bad(f'{f.qualname}:OFF removes the entry', f.node, 'no `level == OFF` test: switching off leaves the entry in place', f)
        return
    t = offtests[0]
    on_t = cfg.reach([t.id], labels={'T'}, avoid=[t.id])
    on_f = cfg.reach([t.id], labels={'F'}, avoid=[t.id])
    if any(op == '!=' for l, op, r in compare_ops(t.ast)):
        on_t, on_f = on_f, on_t      # `if level != OFF:` - the OFF branch is the false branch
    rem_ids = {i for c in pops + dels for i in cfg.node_of(c)}
    ctx.check(bool(rem_ids & on_t) and not (rem_ids & on_f - on_t), f'{f.qualname}:OFF removes the entry', t.ast,
              'the OFF branch pops/deletes the entry of conn', 'the OFF branch does not remove the entry of this connection', f)
    for s in stores:
        sid = set(cfg.node_of(s))
        keyed = src(s.slice) == 'conn'
        if not keyed and 'subscriptions' in src(s.value) and isinstance(getattr(s, 'parent', None), ast.Assign) and \
                isinstance(s.parent.value, ast.Dict) and not s.parent.value.keys:
            continue        # `self.subscriptions[modname] = {}`: the (empty) table of a module is created, nothing is stored for a connection
        ctx.check(keyed and not (sid & on_t - on_f), f'{f.qualname}:store keyed by conn', s,
                  'level stored for this connection only, on the non-OFF branch',
                  f'`{src(s)}` is not keyed by conn or is executed on the OFF branch: other connections are affected', f)


@rule('C20.R3', min_instances=3)
def reset_paths(ctx):
    """reset_connection switches logging off for the connection; *IDN? and disconnect reach reset_connection;
    RequestHandler.finish (called from a finally) reaches remove_connection"""
    m = ctx.m
    rc = m.method(roles.DISPATCHER, 'reset_connection', inherited=False)
    ctx.analysed(rc)
    calls = func_calls(rc.node, attr='set_all_log_levels')
    ok = any(len(c.args) == 2 and src(c.args[0]) == 'conn' and isinstance(c.args[1], ast.Constant) and str(c.args[1].value).lower() == 'off'
             for c in calls)
    ctx.check(ok, f'{rc.qualname}:switches logging off', rc.node, 'set_all_log_levels(conn, "off")',
              'reset_connection does not switch remote logging off for the connection', rc)
    cfgrc = CFG(rc.node, m, rc.module)
    offs = [i for c in calls if len(c.args) == 2 and src(c.args[0]) == 'conn' for i in cfgrc.node_of(c)]
    ctx.check(bool(offs) and cfgrc.all_paths_pass([cfgrc.entry], [cfgrc.exit], offs, exc=False), f'{rc.qualname}:switches logging off on every path', rc.node,
              'no normal path around set_all_log_levels(conn, "off")',
              'the switch-off is conditional (e.g. on a remembered "this connection uses logging" flag): book-keeping that can get out of step with the per-module '
              'subscriptions (`logging mod debug; logging other off`) leaves subscriptions alive after *IDN? / disconnect', rc)
    sal = m.method(roles.DISPATCHER, 'set_all_log_levels', inherited=False)
    ctx.analysed(sal)
    loops = [n for n in body_walk(sal.node) if isinstance(n, ast.For) and 'modules' in src(n.iter)]
    ok = bool(loops) and any(call_attr(c) == 'setRemoteLogging' and c.args and src(c.args[0]) == 'conn' for l in loops for c in calls_in(l))
    ctx.check(ok, f'{sal.qualname}:covers all modules', sal.node, 'iterates all modules with setRemoteLogging(conn, ...)',
              'set_all_log_levels does not apply the level to every module for this connection', sal)
    # domain agreement with handle_logging, which accepts every module of secnode.modules by name
    for l in loops:
        for c in [c for c in calls_in(l) if call_attr(c) == 'setRemoteLogging']:
            conds = [src(a.test) for a in ancestors(c) if isinstance(a, ast.If) and any(a is x for x in ast.walk(l))]
            ctx.check(not conds and src(resolved(l.iter, sal.node)).startswith('self.secnode.modules'), f'{sal.qualname}:same module domain as handle_logging', c,
                      'unconditional over secnode.modules',
                      f'the level is applied only when {conds}: handle_logging accepts every module by name, so a subscription on a skipped module '
                      'is never switched off by `logging . off`, *IDN? or disconnect', sal)
    for name in ('handle__ident', 'remove_connection'):
        f = m.method(roles.DISPATCHER, name, inherited=False)
        ctx.analysed(f)
        cfg = CFG(f.node, m, f.module)
        cs = [i for c in func_calls(f.node, attr='reset_connection') if c.args and src(c.args[0]) == 'conn' for i in cfg.node_of(c)]
        # normal returns after a caught exception count as well (`except ValueError: return`); uncaught ones leave by the other exit
        ok = bool(cs) and cfg.all_paths_pass([cfg.entry], [cfg.exit], cs, exc=True)
        ctx.check(ok, f'{f.qualname}:reaches reset_connection', f.node, 'every normal path calls reset_connection(conn)',
                  'a normal path does not call reset_connection(conn): log messages keep flowing after *IDN? / disconnect', f)
    fin = m.method(roles.HANDLER, 'finish', inherited=False)
    ok = any(call_attr(c) == 'remove_connection' for c in calls_in(fin.node))
    ctx.check(ok, f'{fin.qualname}:reaches remove_connection', fin.node, 'finish() unregisters the connection',
              'finish() does not call dispatcher.remove_connection', fin)
    init = m.method(roles.HANDLER, '__init__', inherited=False)
    infinally = False
    for c in calls_in(init.node):
        if call_attr(c) == 'finish':
            for a in ancestors(c):
                if isinstance(a, ast.Try) and any(c in list(ast.walk(st)) for st in a.finalbody):
                    infinally = True
    ctx.check(infinally, f'{init.qualname}:finish in finally', init.node, 'finish() is called from a finally block',
              'finish() is not called from a finally: an exception in handle() leaves the connection registered', init)


def _slice_kind(sl):
    """abstract domain for slices of an ascending list: 'prefix' (oldest), 'suffix' (newest), 'unknown'; -> (kind, count expr src)"""
    if not isinstance(sl, ast.Slice) or sl.step is not None:
        return 'unknown', None
    lo, up = sl.lower, sl.upper
    if lo is None and up is not None:
        if isinstance(up, ast.UnaryOp) and isinstance(up.op, ast.USub):
            return 'prefix', src(up.operand)          # [:-k]  all but the k newest
        if isinstance(up, ast.BinOp) and isinstance(up.op, ast.Sub) and src(up.left).startswith('len('):
            return 'prefix-len-minus', src(up.right)  # [:len(x)-k]  wraps around when len(x) < k
        return 'prefix-count', src(up)                # [:k] the k oldest
    if up is None and lo is not None:
        return 'suffix', src(lo)                      # [-k:] / [k:]  contains the newest
    return 'unknown', None


@rule('C20.R4', min_instances=1)
def retention_keeps_newest(ctx):
    """doRollover: files sorted ascending; the slice handed to os.remove must be `[:-max_days]` (oldest prefix)"""
    m = ctx.m
    f = m.method(LFH, 'doRollover', inherited=False)
    ctx.analysed(f)
    removes = [c for c in calls_in(f.node) if call_name(c) in ('os.remove', 'os.unlink')]
    if not removes:
        raise AnchorMissing('os.remove in doRollover not found')
    for c in removes:
        arg = c.args[0] if c.args else None
        loop = next((a for a in ancestors(c) if isinstance(a, ast.For)), None)
        if loop is None or not isinstance(arg, ast.Name) or src(loop.target) != arg.id:
            ctx.undecided(f'{f.qualname}:files removed', c, 'os.remove is not applied to the loop variable of a for over a slice', f)
            continue
        it = loop.iter
        if not isinstance(it, ast.Subscript):
            ctx.undecided(f'{f.qualname}:files removed', c, f'iterates `{src(it)}`: not a slice', f)
            continue
        base = it.value
        asc = False
        for o in origins(base, f.node):
            if isinstance(o, ast.Call) and dotted(o.func) == 'sorted' and not any(k.arg == 'reverse' for k in o.keywords):
                asc = True
        if not asc and isinstance(base, ast.Call) and isinstance(base.func, ast.Attribute) and dotted(base.func.value) == 'self' and \
                f.cls is not None and m.has_method(f.cls.qualname, base.func.attr):
            # the list comes from a helper method of the handler: what it returns is (a slice / a comprehension over) a sorted(...)
            h = m.method(f.cls.qualname, base.func.attr)
            for r in [x for x in body_walk(h.node) if isinstance(x, ast.Return) and x.value is not None]:
                rv = resolved(r.value, h.node)
                if any(isinstance(x, ast.Call) and dotted(x.func) == 'sorted' and not any(k.arg == 'reverse' for k in x.keywords) for x in ast.walk(rv)):
                    asc = True
        if not asc:
            ctx.undecided(f'{f.qualname}:files removed', c, f'`{src(base)}` is not known to be sorted ascending', f)
            continue
        # "newest" means the date in the file NAME (one file per day): an ordering by file metadata (mtime, ctime, size) ranks an
        # old day's file that was touched, copied back or edited as new - and a newer day is removed in its place
        for o in origins(base, f.node):
            k = kwarg(o, 'key') if isinstance(o, ast.Call) else None
            if k is not None and any(x in src(k) for x in ('getmtime', 'getctime', 'getatime', 'getsize', 'stat(', 'st_mtime', 'st_ctime', 'lstat')):
                ctx.bad(f'{f.qualname}:files ordered by the date in their name', o, f'`{src(o)}` orders the old log files by `{src(k)}` (file metadata) instead of '
                        'by name: a file of an old day that was touched recently counts as the newest and a newer day is deleted in its place', f)
            elif isinstance(o, ast.Call) and dotted(o.func) == 'sorted':
                ctx.ok(f'{f.qualname}:files ordered by the date in their name', o, f'`{src(o)[:80]}`', f)
        sl = it.slice
        if isinstance(sl, ast.Slice) and sl.lower is None and sl.upper is not None and not isinstance(sl.upper, ast.Name):
            # `keep = self.max_days - 1; files[:-keep]`: once-bound locals inside the bound are spelled out
            sl = ast.Slice(lower=None, upper=resolved(sl.upper, f.node), step=None)
        if isinstance(sl, ast.Slice) and sl.lower is None and isinstance(sl.upper, ast.Name):
            # the bound is computed into a local first
            ov = origins(sl.upper, f.node)
            if len(ov) == 1:
                sl = ast.Slice(lower=None, upper=ov[0], step=None)
        kind, count = _slice_kind(sl)
        if kind == 'prefix-len-minus':
            guarded = any(isinstance(a, ast.If) and 'len(' in src(a.test) and 'max_days' in src(a.test) for a in ancestors(c))
            if guarded:
                ctx.undecided(f'{f.qualname}:files removed', c, '`[:len(files) - k]` under a length guard', f)
            else:
                ctx.bad(f'{f.qualname}:files removed', c,
                        f'the files to remove are `{src(it)}` with the bound len(files) - {count}: when the directory holds fewer files than the '
                        'retention, the bound is negative and wraps around - files inside the retention window are deleted', f)
        elif kind == 'prefix':
            ok = count == 'self.max_days'
            if ok:
                ctx.ok(f'{f.qualname}:files removed', c, 'all but the max_days newest files are removed', f)
            else:
                cexpr = sl.upper.operand if isinstance(sl.upper, ast.UnaryOp) else None
                can_be_zero = isinstance(cexpr, ast.BinOp) and isinstance(cexpr.op, ast.Sub)
                pos_guard = any(isinstance(a, ast.If) and any(op in ('<', '<=') and (count in (l, r) or (isinstance(cexpr, ast.BinOp) and src(cexpr.left) in (l, r)))
                                                               for l, op, r in compare_ops(a.test)) for a in ancestors(c))
                if can_be_zero and not pos_guard:
                    ctx.bad(f'{f.qualname}:files removed', c, f'the files to remove are `{src(it)}`: the count `{count}` can be 0 (retention of one day) and `[:-0]` is the EMPTY '
                            'prefix, not the whole list - nothing is ever removed although only the file being written is to be kept', f)
                else:
                    ctx.undecided(f'{f.qualname}:files removed', c, f'oldest-prefix keeps `{count}` files (not self.max_days)', f)
        elif kind == 'suffix':
            ctx.bad(f'{f.qualname}:files removed', c,
                    f'`{src(it)}` of the ascending file list is a newest-suffix: the newest files (including the one '
                    'being written) are deleted and the old ones kept', f)
        else:
            ctx.undecided(f'{f.qualname}:files removed', c, f'slice form `{src(it)}` not recognised', f)
    # guarded by max_days being set (0 = keep all)
    for c in removes:
        rcfg = CFG(f.node, m, f.module)
        guarded = set(rcfg.node_of(c)) <= sides_with_fact(rcfg, lambda a, tv: tv and src(a).endswith('max_days'))
        ctx.check(guarded, f'{f.qualname}:retention only when configured', c, 'guarded by self.max_days',
                  'files are removed even when no retention is configured (max_days == 0 would delete `files[:-0]` = nothing / everything)', f)


@rule('C20.R5', min_instances=1)
def handler_search_follows_the_records(ctx):
    """Module.setRemoteLogging (with its helpers) finds the RemoteLogHandler by walking up the logger chain the way log
    records travel: the handlers of a logger are inspected, then ITS propagate flag decides whether the parent is looked at.
    Between re-binding the chain variable (`log = log.parent`) and reading `.propagate` the handlers of the new logger must
    have been inspected - otherwise the own logger's propagate=False is ignored (a connection is subscribed on a handler
    that never sees the records) or a parent that does carry the handler is skipped (logging / *IDN? / disconnect fail)"""
    m = ctx.m
    f = m.method(roles.MODULE, 'setRemoteLogging', inherited=False)
    units = [f] + [h for site, h in helper_methods_called(m, f)]
    n = 0
    for u in units:
        props = [x for x in body_walk(u.node) if isinstance(x, ast.Attribute) and x.attr == 'propagate' and isinstance(x.value, ast.Name)]
        if not props:
            continue
        ctx.analysed(u)
        cfg = CFG(u.node, m, u.module)
        for p_ in props:
            var = p_.value.id
            rebinds = [i for v, st, how in local_assigns(u.node, var) if how == 'assign' and v is not None and '.parent' in src(v) for i in cfg.node_of(st)]
            inspects = [i for x in body_walk(u.node) if isinstance(x, ast.Attribute) and x.attr == 'handlers' and src(x.value) == var for i in cfg.node_of(x)]
            reads = list(cfg.node_of(p_))
            if not rebinds or not inspects or not reads:
                ctx.undecided(f'{u.qualname}:propagate is read from the logger whose handlers were inspected', p_, 'chain walk not recognised', u)
                continue
            n += 1
            # a re-binding that reads the flag in its own statement (`log = log.parent if log.propagate else None`) reads the old logger
            rb = [i for i in rebinds if i not in reads]
            ok = cfg.all_paths_pass(rb, reads, inspects, exc=False)
            ctx.check(ok, f'{u.qualname}:propagate is read from the logger whose handlers were inspected', p_,
                      f'every path from `{var} = {var}.parent` to `{src(p_)}` inspects `{var}.handlers` first',
                      f'`{src(p_)}` can be read right after `{var}` was re-bound to its parent, before the handlers of that logger were inspected: the flag of the '
                      'wrong logger decides - the module logger\'s own propagate=False is ignored and a parent with propagate=False that carries the handler is '
                      'skipped ("remote handler not found" on logging, *IDN? and disconnect)', u)
    if not n:
        raise AnchorMissing('walk up the logger chain (.handlers / .propagate / .parent) not found in setRemoteLogging')


@rule('C20.R6', min_instances=2)
def a_failing_connection_can_not_break_the_log_fan_out(ctx):
    """RemoteLogHandler.emit hands each record to send_reply of every subscribed connection, from whatever thread logs.
    send_reply (tcp and websocket, with the helper methods it uses) contains EVERY exception of the socket send in a
    catch-all handler: with `except OSError` only, another failure of one connection (ssl / websocket library errors,
    ValueError on a closed file object) escapes through emit() - the connections served after it lose the record, and
    the exception surfaces in the module code that happened to log"""
    from sa.lib import contained_by_catch_all, helper_methods_called
    m = ctx.m
    n = 0
    for q, f in sorted(m.functions.items()):
        if f.name != 'send_reply' or not f.module.name.startswith('frappy.protocol.interface') or f.cls is None:
            continue
        unit = [f] + [h for site, h in helper_methods_called(m, f)]
        for g in unit:
            for c in calls_in(g.node):
                if call_attr(c) not in ('sendall', 'send'):
                    continue
                n += 1
                ctx.analysed(g)
                t, h = contained_by_catch_all(c)
                ctx.check(t is not None, f'{g.qualname}:every failure of the send is contained', c, 'inside try / except Exception',
                          f'`{src(c)}` is not inside a catch-all handler: an exception that is not among the ones caught here leaves send_reply, and with it '
                          'RemoteLogHandler.emit - the remaining subscribers do not get the log record and the logging call itself raises', g)
    if n < 2:
        raise AnchorMissing('socket send in send_reply of the interfaces not found')


@rule('C20.R7', min_instances=1)
def level_names_are_looked_up_under_the_key_that_was_tested(ctx):
    """frappy.logging (check_level and its helpers): a level name is normalised (`key = name.lower()`) and looked up in LOG_LEVELS.
    Where a membership test guards the lookup, both use the SAME key: `if name in LOG_LEVELS: return LOG_LEVELS[key]` refuses
    every valid name that is not all lower case - `logging mod "OFF"` then leaves the subscription in place (the connection keeps
    receiving) and `logging mod "DEBUG"` enables nothing"""
    m = ctx.m
    n = 0
    for q, f in sorted(m.functions.items()):
        if f.module.name != 'frappy.logging':
            continue
        for st in body_walk(f.node):
            if not isinstance(st, (ast.If, ast.IfExp)):
                continue
            for c in [x for x in ast.walk(st.test) if isinstance(x, ast.Compare) and len(x.ops) == 1 and isinstance(x.ops[0], (ast.In, ast.NotIn))
                      and isinstance(x.comparators[0], ast.Name) and x.comparators[0].id.isupper() and isinstance(x.left, ast.Name)]:
                table = c.comparators[0].id
                branch = (st.body if isinstance(c.ops[0], ast.In) else st.orelse)
                branch = branch if isinstance(branch, list) else [branch]
                for sub in [x for b in branch for x in ast.walk(b) if isinstance(x, ast.Subscript) and isinstance(x.value, ast.Name) and x.value.id == table
                            and isinstance(x.slice, ast.Name)] + \
                           [x for b in branch for x in ast.walk(b) if isinstance(x, ast.Call) and call_attr(x) == 'get' and isinstance(x.func.value, ast.Name)
                            and x.func.value.id == table and x.args and isinstance(x.args[0], ast.Name)]:
                    key = sub.slice.id if isinstance(sub, ast.Subscript) else sub.args[0].id
                    n += 1
                    ctx.analysed(f)
                    ctx.check(key == c.left.id, f'{f.qualname}:{table} is read under the key that was tested', c, f'`{src(c)}` guards `{src(sub)}`',
                              f'`{src(c)}` tests `{c.left.id}` but `{src(sub)}` is read under `{key}`: a name that only becomes a key after normalisation (another case) is '
                              'refused although the table holds it', f)
    if not n:
        ctx.ok('frappy.logging:level table lookups', None, 'no membership test guarding a lookup under another key (lookups are guarded by their own KeyError handler)')


@rule('C20.R8', min_instances=1)
def a_configured_retention_of_zero_is_kept(ctx):
    """frappy.logging reads the retention (`logfile_days`, `comlog_days`) with generalConfig.getint(key, default): the default is
    applied for a MISSING key only.  `getint(key) or default` replaces a configured 0 by the default - a comlog configured to keep
    nothing beyond the current file is rotated with a retention of 7 days (and the other way round: files the configuration asked
    to keep are removed)"""
    m = ctx.m
    n = 0
    hits = []
    for q, fi in sorted(m.functions.items()):
        if fi.module.name != 'frappy.logging':
            continue
        for x in body_walk(fi.node, into_lambda=True):
            if isinstance(x, ast.Call) and call_attr(x) in ('getint', 'getfloat', 'get') and 'generalConfig' in src(x.func):
                n += 1
                ctx.analysed(fi)
                par = getattr(x, 'parent', None)
                if isinstance(par, ast.BoolOp) and isinstance(par.op, ast.Or) and x in par.values[:-1]:
                    hits.append((fi, par))
    if not n:
        raise AnchorMissing('no generalConfig.getint(...) in frappy.logging')
    ctx.check(not hits, 'frappy.logging:configured numbers are not replaced by their truth value', hits[0][1] if hits else None, f'{n} configuration reads, none followed by `or <default>`',
              f'`{src(hits[0][1]) if hits else ""}`: a configured value of 0 is falsy and is replaced by the default', hits[0][0] if hits else None)
