"""C13 - poller: bounded staleness, no starvation, survives failing reads"""
from sa.core import rule, prop_info
from sa.lib import *  # noqa: F401,F403
from sa.lib import local_assigns  # noqa
from sa.lib import (attr_stores, func_calls, enclosing_tries, handler_catches_all, handler_reraises,
                    handler_type_names, contained_by_catch_all, origins)
from sa.model import AnchorMissing, kwarg, names_in, UNKNOWN
from sa import roles

prop_info(
    'C13',
    'Decided: R1 every call of driver code from the poll thread goes through callPollFunc or lies inside a catch-all '
    'handler; callPollFunc catches Exception and re-raises only under `raise_com_failed and isinstance(e, '
    'CommunicationFailedError)`; steady-state call sites never pass raise_com_failed and the start-up site that does '
    'is inside a handler for exactly that class; R2 the only source of read functions is PollInfo.polled_parameters, '
    'whose single append is dominated by the rfunc.poll test, and the generated wrappers / nopoll / handlers set the '
    'poll flag as documented; R3 every function that stores PollInfo.interval or fast_flag triggers the poll event '
    'afterwards, and the loop recomputes its wait time after every wake-up; R4 every division by an interval in the '
    'poll thread is inside a ZeroDivisionError handler or has a divisor whose declared datatype has min > 0.',
    not_decided='every timing bound (poll interval + one sweep, slow-interval multiples): virtual-time quantities.')

CFE = 'frappy.errors.CommunicationFailedError'
# hooks of a module that run driver code (called on the loop variable of the poll thread)
SELF_CONTAINED = {'writeInitParams': 'contains its own catch-all around the write call (checked by R1b)',
                  'callPollFunc': 'the containment wrapper itself', 'addCallback': 'framework bookkeeping, no driver code'}


def _module_loop_vars(pt):
    """names bound by for-loops / comprehensions over the module lists of the poll thread"""
    res = set()
    for n in body_walk(pt.node):
        if isinstance(n, ast.For):
            it = src(n.iter)
            if it in ('modules', 'polled_modules') or it.endswith('polled_parameters') or it == 'to_poll':
                res |= {x.id for x in ast.walk(n.target) if isinstance(x, ast.Name)}
    return res


def _guard_is_comfail(test):
    """`raise_com_failed and isinstance(e, CommunicationFailedError)` in any operand order"""
    if not (isinstance(test, ast.BoolOp) and isinstance(test.op, ast.And)):
        return False
    parts = [src(v) for v in test.values]
    return any(p == 'raise_com_failed' for p in parts) and any(p.startswith('isinstance(') and 'CommunicationFailedError' in p for p in parts)


@rule('C13.R1', min_instances=6)
def containment(ctx):
    """driver code called from the poll thread can not end the thread"""
    m = ctx.m
    pt = roles.poll_thread(m)
    ctx.analysed(pt)
    lv = _module_loop_vars(pt)
    if not lv:
        raise AnchorMissing('module loop variables in the poll thread not found')
    steady = [n for n in body_walk(pt.node) if isinstance(n, ast.While) and src(n.test) == 'modules']
    if not steady:
        raise AnchorMissing('steady-state loop `while modules` not found in the poll thread')
    for c in calls_in(pt.node):
        f = c.func
        direct_func = isinstance(f, ast.Name) and f.id in lv                      # rfunc()
        meth = isinstance(f, ast.Attribute) and isinstance(f.value, ast.Name) and f.value.id in lv
        if not (direct_func or meth):
            continue
        name = f.id if direct_func else f.attr
        in_steady = any(a is steady[0] for a in ancestors(c))
        construct = f'{pt.qualname}:call {src(f)} ({"steady" if in_steady else "start-up"})'
        if meth and name == 'callPollFunc':
            rcf = kwarg(c, 'raise_com_failed') or (c.args[1] if len(c.args) > 1 else None)
            if rcf is None or (isinstance(rcf, ast.Constant) and not rcf.value):
                ctx.ok(construct, c, 'through callPollFunc, exceptions are contained', pt)
            elif in_steady:
                ctx.bad(construct, c, 'a steady-state poll passes raise_com_failed: a communication failure ends the poll thread', pt)
            else:
                ok = False
                for t, part in enclosing_tries(c):
                    if part == 'body' and any('CommunicationFailedError' in (handler_type_names(h) or []) and not handler_reraises(h) for h in t.handlers):
                        ok = True
                ctx.check(ok, construct, c, 'start-up poll with raise_com_failed inside `except CommunicationFailedError`',
                          'raise_com_failed is passed outside a handler for CommunicationFailedError: the exception ends the thread', pt)
            continue
        if meth and name in SELF_CONTAINED:
            ctx.ok(construct, c, f'named exception: {SELF_CONTAINED[name]}', pt)
            continue
        if meth and name in ('pollInfo',):
            continue
        # any other call on a module object / read function: must be inside a catch-all
        t, h = contained_by_catch_all(c)
        ok = t is not None and not handler_reraises(h)
        if t is not None and not ok and h.name:
            # `except Exception as e: if isinstance(e, CommunicationFailedError): raise` - handed on to an outer handler for that class
            raises = [x for st in h.body for x in walk_local(st) if isinstance(x, ast.Raise)]
            known = set()
            for x in raises:
                for a in ancestors(x):
                    if a is h:
                        break
                    if isinstance(a, ast.If):
                        for at, tv in facts_on_side(a.test, True):
                            if tv and isinstance(at, ast.Call) and dotted(at.func) == 'isinstance' and len(at.args) == 2 and src(at.args[0]) == h.name \
                                    and any(x is y for b in a.body for y in ast.walk(b)):
                                known.add((id(x), dotted(at.args[1])))
            outer_ok = lambda cls: any(part == 'body' and any(cls in (handler_type_names(h2) or []) and not handler_reraises(h2) for h2 in t2.handlers)
                                       for t2, part in enclosing_tries(t))      # noqa: E731
            if raises and all(x.exc is None and any(i == id(x) and cls and outer_ok(cls) for i, cls in known) for x in raises):
                ok = True
        ctx.check(ok, construct, c, 'inside try/except Exception without re-raise',
                  f'`{src(c)}` runs driver code directly in the poll thread and is not inside a catch-all handler: any '
                  'exception other than the ones caught ends the poll thread - the start callback is never invoked and '
                  'none of the modules of this thread is polled again', pt)
    # callPollFunc itself
    cp = m.method(roles.MODULE, 'callPollFunc', inherited=False)
    ctx.analysed(cp)
    calls = [c for c in calls_in(cp.node) if isinstance(c.func, ast.Name) and c.func.id == cp.node.args.args[1].arg]
    if not calls:
        raise AnchorMissing('call of the poll function in callPollFunc not found')
    for c in calls:
        t, h = contained_by_catch_all(c)
        ctx.check(t is not None, f'{cp.qualname}:poll function call contained', c, 'inside try/except Exception',
                  'callPollFunc does not catch Exception around the poll function: errors other than the caught ones end the poll thread', cp)
        if t is None:
            continue
        cpcfg = CFG(cp.node, m, cp.module)
        flag = cp.node.args.args[2].arg if len(cp.node.args.args) > 2 else 'raise_com_failed'
        asked = sides_with_fact(cpcfg, lambda a, tv: tv and isinstance(a, ast.Name) and a.id == flag)
        def is_comfail(a, tv):
            if not tv:
                return False
            if isinstance(a, ast.Call) and dotted(a.func) == 'isinstance' and 'CommunicationFailedError' in src(a):
                return True
            if isinstance(a, ast.Name):
                # a flag that is true only where the isinstance test was: every binding is `False` or that test
                defs = [v for v, st, how in local_assigns(cp.node, a.id)]
                return bool(defs) and any(v is not None and isinstance(v, ast.Call) for v in defs) and all(
                    v is not None and ((isinstance(v, ast.Constant) and v.value is False) or
                                       (isinstance(v, ast.Call) and dotted(v.func) == 'isinstance' and 'CommunicationFailedError' in src(v))) for v in defs)
            return False
        comfail = sides_with_fact(cpcfg, is_comfail)
        # the firewall is total: what a handler for ANY exception does with the caught object works for any exception - attributes
        # only SECoP errors have (report_error, silent, raising_methods, format ...) are read with a getattr default or where an
        # isinstance test established the class; otherwise the handler itself raises AttributeError and the poll thread ends
        for hd in t.handlers:
            names = handler_type_names(hd)
            if hd.name is None or (names is not None and not any(py_exc(n) in (Exception, BaseException) for n in names)):
                continue
            typed = sides_with_fact(cpcfg, lambda a, tv, hd=hd: tv and isinstance(a, ast.Call) and dotted(a.func) == 'isinstance' and a.args
                                    and src(a.args[0]) == hd.name)
            for x in [x for st in hd.body for x in walk_local(st)]:
                if isinstance(x, ast.Attribute) and isinstance(x.value, ast.Name) and x.value.id == hd.name and not hasattr(Exception(), x.attr):
                    ok = bool(cpcfg.node_of(x)) and set(cpcfg.node_of(x)) <= typed
                    ctx.check(ok, f'{cp.qualname}:handler for any exception reads `{x.attr}` safely', x,
                              'where isinstance established the class',
                              f'`{src(x)}` in the handler for `{src(hd.type) if hd.type else "everything"}`: a plain Python exception has no attribute '
                              f'`{x.attr}` - the first non-SECoP exception of a poll / read function raises AttributeError inside the handler, which escapes '
                              'callPollFunc and ends the poll thread of every module it serves', cp)
        for node in [x for hd in t.handlers for st in hd.body for x in walk_local(st) if isinstance(x, ast.Raise)]:
            # the re-raise lies only where the tests established both facts (one combined test or nested ones)
            ok = bool(cpcfg.ids(node)) and set(cpcfg.ids(node)) <= (asked & comfail)
            ctx.check(ok, f'{cp.qualname}:re-raise only for start-up communication failure', node,
                      'guarded by raise_com_failed and isinstance(e, CommunicationFailedError)',
                      'callPollFunc re-raises outside the start-up communication-failure guard: a failing read ends the poll thread', cp)
    # writeInitParams is self contained
    wi = m.method(roles.MODULE, 'writeInitParams', inherited=False)
    ctx.analysed(wi)
    wcalls = [c for c in calls_in(wi.node) if isinstance(c.func, ast.Name) and c.func.id == 'wfunc']
    for c in wcalls:
        t, h = contained_by_catch_all(c)
        ctx.check(t is not None and not handler_reraises(h), f'{wi.qualname}:write call contained', c,
                  'inside try/except Exception without re-raise', 'a failing configured write ends the poll thread', wi)
    if not wcalls:
        raise AnchorMissing('wfunc(value) call in writeInitParams not found')


@rule('C13.R2', min_instances=5)
def only_polled_parameters(ctx):
    """polled_parameters is the only source of read functions; its append is dominated by the poll flag test"""
    m = ctx.m
    pt = roles.poll_thread(m)
    ctx.analysed(pt)
    cfg = CFG(pt.node, m, pt.module)
    apps = [c for c in calls_in(pt.node) if call_attr(c) == 'append' and 'polled_parameters' in src(c.func)]
    exts = [c for c in calls_in(pt.node) if call_attr(c) == 'extend' and 'polled_parameters' in src(c.func)]
    ctx.check(len(apps) + len(exts) == 1, f'{pt.qualname}:single registration of read functions', pt.node, 'one append to polled_parameters',
              f'{len(apps) + len(exts)} appends to polled_parameters', pt)
    for c in exts:
        # `polled_parameters.extend(<item> for ... if rfunc.poll)`: the filter of the comprehension is the guard
        a = c.args[0] if c.args else None
        if isinstance(a, (ast.GeneratorExp, ast.ListComp)):
            conds = [x for g in a.generators for x in g.ifs]
            ok = any(any(isinstance(at, ast.Attribute) and at.attr == 'poll' and tv for at, tv in facts_on_side(x, True)) for x in conds)
            ctx.check(ok, f'{pt.qualname}:registration guarded by the poll flag', c, 'only items with `rfunc.poll`',
                      'read functions are registered for polling regardless of their poll flag: parameters marked as not polled are read by the poller', pt)
        else:
            ctx.undecided(f'{pt.qualname}:registration guarded by the poll flag', c, 'extend() with something else than a comprehension', pt)
    for c in apps:
        tests = [t for t in cfg.nodes if t.kind == 'test' and src(t.ast).endswith('.poll')]
        ok = False
        for t in tests:
            ids = set(cfg.node_of(c))
            if all(cfg.dominates([t.id], i) for i in ids) and not (ids & cfg.reach([t.id], labels={'F'}, avoid=[t.id]) - cfg.reach([t.id], labels={'T'}, avoid=[t.id])) \
                    and not (ids & (cfg.reach([t.id], labels={'F'}, avoid=[t.id]))):
                ok = True
        ctx.check(ok, f'{pt.qualname}:registration guarded by the poll flag', c, 'append only `if rfunc.poll`',
                  'read functions are registered for polling regardless of their poll flag: parameters marked as not polled are read by the poller', pt)
    # the slow-poll loop draws only from polled_parameters
    # (the list that is filled and then becomes `to_poll`: to_poll itself or a local it is built from - iter(collected))
    lists = {'to_poll'} | {n2.id for x in body_walk(pt.node) if isinstance(x, ast.Assign) and any(src(t) == 'to_poll' for t in x.targets)
                           for n2 in ast.walk(x.value) if isinstance(n2, ast.Name)}
    srcs = [x for x in body_walk(pt.node) if isinstance(x, ast.Call) and call_attr(x) in ('extend', 'append') and src(x.func.value) in lists]
    ok = bool(srcs) and all(x.args and src(x.args[0]).endswith('.polled_parameters') for x in srcs)
    if not srcs:
        # the refill may be a generator function: `to_poll = list(_due_slow_polls(modules, now))` with `yield from pinfo.polled_parameters`
        gens = []
        for x in body_walk(pt.node):
            if isinstance(x, ast.Assign) and any(src(t) in lists for t in x.targets):
                for c in [y for y in ast.walk(x.value) if isinstance(y, ast.Call) and isinstance(y.func, ast.Name)]:
                    g = m.functions.get(f'{pt.module.name}.{c.func.id}')
                    if g is not None and g.cls is None:
                        ys = [y for y in ast.walk(g.node) if isinstance(y, (ast.Yield, ast.YieldFrom))]
                        if ys:
                            gens.append((g, ys))
        if gens:
            ok = all(isinstance(y, ast.YieldFrom) and src(y.value).endswith('.polled_parameters') for g, ys in gens for y in ys)
            for g, ys in gens:
                ctx.analysed(g)
    if not srcs and not ok:
        for x in body_walk(pt.node):
            if isinstance(x, ast.Assign) and any(src(t) in lists for t in x.targets) and isinstance(x.value, ast.Call) and isinstance(x.value.func, ast.Name) \
                    and m.resolve_name(pt.module, x.value.func.id) in m.classes:
                ctx.undecided(f'{pt.qualname}:slow polls drawn from polled_parameters', x, f'`{src(x)}`: the slow polls are kept by an object of a helper class, which is not followed', pt)
                return
    ctx.check(ok, f'{pt.qualname}:slow polls drawn from polled_parameters', pt.node, 'to_poll.extend(pinfo.polled_parameters)',
              'the slow-poll list is filled from another source than polled_parameters', pt)
    first = [n for n in body_walk(pt.node) if isinstance(n, ast.For) and (src(n.iter).endswith('polled_parameters') or
                                                                           ('polled_parameters' in src(n.iter) and 'chain' in src(n.iter)))]
    ctx.check(bool(first), f'{pt.qualname}:first polls drawn from polled_parameters', pt.node, 'initial round iterates polled_parameters',
              'the initial round does not iterate polled_parameters', pt)
    # wrappers set the flag
    hook = m.method(roles.HASACC, '__init_subclass__', inherited=False)
    ctx.analysed(hook)
    flags = [(t, v, s) for t, v, s in attr_stores(hook.node) if t.attr == 'poll']
    have_inherit = any(isinstance(v, ast.Call) and dotted(v.func) == 'getattr' and len(v.args) == 3 and isinstance(v.args[2], ast.Constant)
                       and v.args[2].value is True and isinstance(v.args[1], ast.Constant) and v.args[1].value == 'poll' for t, v, s in flags)
    have_false = any(isinstance(v, ast.Constant) and v.value is False for t, v, s in flags)
    ctx.check(have_inherit, f'{hook.qualname}:wrapper inherits the poll flag', hook.node, "new_rfunc.poll = getattr(rfunc, 'poll', True)",
              'the read wrapper does not take the poll flag from the wrapped function (nopoll is ignored)', hook)
    ctx.check(have_false, f'{hook.qualname}:no read method means not polled', hook.node, 'new_rfunc.poll = False',
              'parameters without read method are polled', hook)
    # the False store must belong to the wrapper without driver call
    for t, v, s in flags:
        if isinstance(v, ast.Constant) and v.value is False:
            inelse = any(isinstance(a, ast.If) and s in [x for st in a.orelse for x in ast.walk(st)] and src(a.test) in ('rfunc',) for a in ancestors(s))
            ctx.check(inelse, f'{hook.qualname}:poll=False only without read method', s, 'in the else branch of `if rfunc`',
                      'poll = False is not restricted to parameters without a read method', hook)
    np_ = m.func('frappy.rwhandler.nopoll')
    ctx.analysed(np_)
    ok = any(t.attr == 'poll' and isinstance(v, ast.Constant) and v.value is False for t, v, s in attr_stores(np_.node))
    ctx.check(ok, f'{np_.qualname}:nopoll clears the flag', np_.node, 'func.poll = False', 'the nopoll decorator does not clear the poll flag', np_)


@rule('C13.R3', min_instances=3)
def changes_trigger_wakeup(ctx):
    """stores to PollInfo.interval / fast_flag are followed by trigger(); trigger sets the event; the loop recomputes"""
    m = ctx.m
    n = 0
    for q, fi in m.functions.items():
        if not fi.module.name == 'frappy.modulebase' or fi.name == '__init__':
            continue
        def _is_pollinfo(e, fi=fi):
            if 'pollInfo' in src(e) or (dotted(e) == 'self' and fi.cls is not None and fi.cls.name == 'PollInfo'):
                return True
            return isinstance(e, ast.Name) and any('pollInfo' in src(o) for o in origins(e, fi.node) if o is not e)
        st = [(t, v, s) for t, v, s in attr_stores(fi.node) if t.attr in ('interval', 'fast_flag') and _is_pollinfo(t.value)]
        if not st:
            continue
        # the change is applied whenever the module is polled at all: the only condition on the way to the store is the existence
        # of the PollInfo (a guard like `flag != pinfo.fast_flag` drops a changed interval while the flag stays the same)
        for t, v, s in st:
            for g in [a for a in ancestors(s) if isinstance(a, (ast.If, ast.While)) and any(a is x for x in body_walk(fi.node))]:
                tst = g.test
                params = {a.arg for a in fi.node.args.args}
                # the harmful idiom: 'skip when unchanged' - a parameter compared with the stored poll state
                unchanged = [c for c in ast.walk(tst) if isinstance(c, ast.Compare) and len(c.ops) == 1 and isinstance(c.ops[0], (ast.Eq, ast.NotEq, ast.Is, ast.IsNot))
                             and any(isinstance(x, ast.Name) and x.id in params for x in (c.left, c.comparators[0]))
                             and any(isinstance(x, ast.Attribute) and x.attr in ('fast_flag', 'interval') for x in (c.left, c.comparators[0]))]
                plain = not unchanged
                ctx.check(plain, f'{fi.qualname}:store {t.attr} not skipped when one input is unchanged', g, f'`{src(tst)}`',
                          f'`{src(s)}` is skipped unless `{src(tst)}`: a call that changes the interval while the other inputs of the guard stay the '
                          'same (setFastPoll(True, 0.25) after setFastPoll(True, 1.0)) is silently dropped - the module keeps being polled at the '
                          'old interval', fi)
        n += 1
        ctx.analysed(fi)
        cfg = CFG(fi.node, m, fi.module)
        trig = [i for c in calls_in(fi.node) if call_attr(c) == 'trigger' for i in cfg.node_of(c)]
        for t, v, s in st:
            ok = bool(trig) and all(cfg.all_paths_pass([i], [cfg.exit], trig, exc=False) for i in cfg.node_of(s))
            ctx.check(ok, f'{fi.qualname}:store {t.attr} followed by trigger', s, 'every normal path after the store calls trigger()',
                      f'`{src(s)}` is not followed by trigger() on every path: the change takes effect only after the old (possibly long) wait expired', fi)
    if n < 2:
        raise AnchorMissing('functions storing PollInfo.interval / fast_flag not found')
    tr = m.method('frappy.modulebase.PollInfo', 'trigger', inherited=False)
    ctx.analysed(tr)
    cfg = CFG(tr.node, m, tr.module)
    sets = [i for c in calls_in(tr.node) if call_attr(c) == 'set' and 'trigger_event' in src(c.func) for i in cfg.node_of(c)]
    ctx.check(bool(sets) and cfg.all_paths_pass([cfg.entry], [cfg.exit], sets, exc=False), f'{tr.qualname}:sets the event', tr.node,
              'trigger_event.set() on every path', 'trigger() does not set the event on every path', tr)
    pt = roles.poll_thread(m)
    steady = [x for x in body_walk(pt.node) if isinstance(x, ast.While) and src(x.test) == 'modules']
    waits = [c for l in steady for c in calls_in(l) if call_attr(c) == 'wait' and 'triggerPoll' in src(c.func)]
    ok = False
    for c in waits:
        st = enclosing_stmt(c)
        lst = st.parent.body if hasattr(st.parent, 'body') and st in st.parent.body else []
        tail = lst[lst.index(st) + 1:] if st in lst else []
        if any(isinstance(x, ast.Continue) for x in tail):
            ok = True
    ctx.check(ok, f'{pt.qualname}:wait is followed by a re-computation', pt.node, 'wait(...) ... continue inside the steady loop',
              'after a wake-up the poll loop does not recompute the due times', pt)
    cfgp = CFG(pt.node, m, pt.module)
    for l in steady:
        head = cfgp.ids(l.test)
        wids = {i for c in calls_in(l) if call_attr(c) == 'wait' and 'triggerPoll' in src(c.func) for i in cfgp.node_of(c)}
        cids = {i for c in calls_in(l) if call_attr(c) == 'clear' and 'triggerPoll' in src(c.func) for i in cfgp.node_of(c)}
        if wids and cids:
            before = cfgp.reach(head, avoid=wids | set(head))
            ctx.check(not (before & cids), f'{pt.qualname}:trigger is cleared only after the wait', l, 'no clear() between the computation of the wait time and wait()',
                      'the trigger event is cleared before waiting: a trigger() issued between the computation of the wait time and clear() is lost - '
                      'a changed poll interval or fast polling takes effect only after the old (long) interval expired', pt)
        # the wait time is the minimum over ALL modules of the thread
        for loop in [x for x in walk_local(l) if isinstance(x, ast.For) and src(x.iter) == 'modules']:
            # ... each taken with ITS OWN settings: inside a loop over the modules of the thread nothing per-module is read from
            # `self` (the module that happens to own the thread)
            own = [x for x in walk_local(loop) if isinstance(x, ast.Attribute) and dotted(x.value) == 'self'
                   and x.attr in ('slowinterval', 'pollinterval', 'pollInfo', 'fast_pollfactor', 'enablePoll')]
            ctx.check(not own, f'{pt.qualname}:per-module settings are read from the loop variable', own[0] if own else loop,
                      f'loop over `{src(loop.iter)}` reads the settings of `{src(loop.target)}`',
                      f'`{src(own[0]) if own else ""}` inside the loop over the modules of the poll thread: the setting of the thread owner is used for '
                      'every module - a module with a shorter interval than the owner is refreshed at the owner\'s interval', pt)
            for a in [x for x in walk_local(loop) if isinstance(x, ast.Assign) and src(x.targets[0]) == 'wait_time']:
                v = a.value
                acc = isinstance(v, ast.Call) and dotted(v.func) == 'min' and any(src(x) == 'wait_time' for x in v.args)
                ctx.check(acc, f'{pt.qualname}:wait time accumulates the minimum over all modules', a, 'wait_time = min(..., wait_time, ...)',
                          f'`{src(a)}` does not carry the running minimum: only the last module of the list decides how long the thread sleeps - a '
                          'module with a short interval listed before one with a long interval is polled at the long interval', pt)
    pi = [c for c in calls_in(pt.node) if call_name(c) == 'PollInfo']
    ok = bool(pi) and all(len(c.args) >= 2 and src(c.args[1]) == 'self.triggerPoll' for c in pi)
    ctx.check(ok, f'{pt.qualname}:PollInfo triggers the event the loop waits on', pt.node, 'PollInfo(..., self.triggerPoll)',
              'PollInfo is not created with the event the poll loop waits on', pt)


def _declared_min_positive(m, attr):
    """is `attr` declared on Module with a FloatRange/IntRange whose first argument (min) is a positive constant"""
    ci, expr = m.class_attr(roles.MODULE, attr)
    if expr is None or not isinstance(expr, ast.Call):
        return None
    dt = expr.args[1] if len(expr.args) > 1 else kwarg(expr, 'datatype')
    if isinstance(dt, ast.Call) and dotted(dt.func) in ('FloatRange', 'IntRange') and dt.args:
        v = m.const(ci.module, dt.args[0])
        if v is not UNKNOWN and isinstance(v, (int, float)):
            return v > 0
    return None


@rule('C13.R4', min_instances=2)
def division_guards(ctx):
    """every division by an interval in the poll thread is guarded"""
    m = ctx.m
    pt = roles.poll_thread(m)
    ctx.analysed(pt)
    n = 0
    for node in body_walk(pt.node):
        if isinstance(node, ast.BinOp) and isinstance(node.op, (ast.FloorDiv, ast.Div, ast.Mod)):
            n += 1
            div = node.right
            covered = False
            for t, part in enclosing_tries(node):
                if part == 'body' and any(h.type is None or set(handler_type_names(h) or []) & {'ZeroDivisionError', 'ArithmeticError', 'Exception'} for h in t.handlers):
                    covered = True
            decl = None
            if isinstance(div, ast.Attribute):
                decl = _declared_min_positive(m, div.attr)
            ctx.check(covered or decl is True, f'{pt.qualname}:division by `{src(div)}`', node,
                      'ZeroDivisionError handler' if covered else 'divisor declared with min > 0',
                      f'`{src(node)}`: the divisor is neither declared with a positive minimum nor is the division inside a '
                      'ZeroDivisionError handler: a poll interval of 0 ends the poll thread', pt)
    if not n:
        raise AnchorMissing('no division in the poll thread (due-time computation changed)')


@rule('C13.R5', min_instances=1)
def slow_poll_round_is_consumed_progressively(ctx):
    """one slow poll per turn: the loop that takes ONE due parameter and breaks must run over an iterator, so that the next
    turn continues behind the parameter polled last (a list would restart at its first entry every turn: one parameter whose
    read keeps failing - its timestamp is never refreshed - would starve all parameters behind it)"""
    m = ctx.m
    pt = roles.poll_thread(m)
    ctx.analysed(pt)
    loops = [n for n in body_walk(pt.node) if isinstance(n, ast.For) and isinstance(n.iter, ast.Name) and
             any(call_attr(c) == 'callPollFunc' for c in calls_in(n)) and any(isinstance(x, ast.Break) for st in n.body for x in walk_local(st))]
    # index form: `while idx < len(round): item = round[idx] ... callPollFunc ... break` - the cursor has to move past the polled item too
    cfg = CFG(pt.node, m, pt.module)
    wl = []
    for n in body_walk(pt.node):
        if isinstance(n, ast.While) and any(call_attr(c) == 'callPollFunc' for c in calls_in(n)) and any(isinstance(x, ast.Break) for st in n.body for x in walk_local(st)):
            for l, op, r in compare_ops(n.test):
                if op in ('<', '<=') and l.isidentifier() and r.startswith('len('):
                    wl.append((n, l))
    for n, idx in wl:
        incs = {i for x in walk_local(n) if isinstance(x, ast.AugAssign) and isinstance(x.op, ast.Add) and src(x.target) == idx for i in cfg.ids(x)}
        polls = {i for c in calls_in(n) if call_attr(c) == 'callPollFunc' for i in cfg.node_of(c)}
        brks = {i for x in walk_local(n) if isinstance(x, ast.Break) for i in cfg.ids(x)}
        ok = bool(incs) and (cfg.all_paths_pass(list(polls), list(brks), incs, exc=False) or all(cfg.dominates(list(incs), i) for i in polls))
        ctx.check(ok, f'{pt.qualname}:slow poll round moves past the polled parameter', n, f'`{idx} += 1` on the path of the polled parameter',
                  f'the cursor `{idx}` is not advanced for the parameter that was just polled: a parameter whose read keeps failing with the same error '
                  '(its timestamp is then not refreshed) is picked again on every sweep - the parameters behind it, of all modules of the thread, are never polled again', pt)
    if not loops and not wl:
        ctx.undecided(f'{pt.qualname}:slow poll round', pt.node, 'no one-poll-per-turn loop recognised', pt)
        return
    for l in loops:
        name = l.iter.id
        vals = [v for v, st, how in local_assigns(pt.node, name) if how == 'assign' and v is not None]
        has_iter = any(isinstance(v, ast.Call) and dotted(v.func) == 'iter' for v in vals)
        ctx.check(has_iter, f'{pt.qualname}:slow poll round is an iterator', l, f'`{name} = iter(...)`: successive turns continue in the round',
                  f'`{name}` is never turned into an iterator: every turn scans the round from its first entry again - a parameter whose read fails '
                  'repeatedly (timestamp not refreshed) is picked every time and the parameters behind it are never polled again', pt)


def _t13(test):
    neg = False
    t = test
    while isinstance(t, ast.UnaryOp) and isinstance(t.op, ast.Not):
        neg = not neg
        t = t.operand
    return t, neg


@rule('C13.R8', min_instances=1)
def a_poll_interval_of_zero_is_an_interval(ctx):
    """poll intervals are numbers for which 0 is a legitimate choice (setFastPoll(True, 0): as fast as possible; the poll loop
    handles it).  Where PollInfo / setFastPoll choose between intervals, the choice is made by the fast FLAG or by `is None`,
    never by the truth value of an interval (`fast_interval or normal_interval` silently keeps the slow interval for 0)"""
    from sa.rules.common import _truthiness_operands
    m = ctx.m
    units = [f for q, f in sorted(m.functions.items()) if (f.cls is not None and f.cls.qualname == 'frappy.modulebase.PollInfo') or
             q == f'{roles.MODULE}.setFastPoll']
    if not units:
        raise AnchorMissing('PollInfo / setFastPoll not found')
    n = 0
    for f in units:
        ctx.analysed(f)
        for x in body_walk(f.node):
            bad = []
            if isinstance(x, ast.BoolOp) and isinstance(x.op, ast.Or):
                bad = [v for v in x.values[:-1] if 'interval' in src(v) and isinstance(v, (ast.Name, ast.Attribute))]
            elif isinstance(x, (ast.IfExp, ast.If)):
                bad = [v for v in _truthiness_operands(x.test) if 'interval' in src(v)]
            for v in bad:
                n += 1
                ctx.bad(f'{f.qualname}:an interval is not chosen by its truth value', x, f'`{src(x)[:90]}` treats `{src(v)}` == 0 like "not given": '
                        'setFastPoll(True, 0) switches the flag on but the poll thread keeps the slow interval', f)
    if not n:
        ctx.ok('frappy.modulebase.PollInfo:an interval is not chosen by its truth value', None, f'{len(units)} functions scanned')


@rule('C13.R7', min_instances=1)
def a_parameter_is_judged_by_the_slow_interval_of_its_own_module(ctx):
    """the age test of a slow-polled parameter (`now > pobj.timestamp + <module>.slowinterval * 0.5`) uses the slow interval of
    the module the parameter belongs to: <module> is bound by the same loop / comprehension that binds the parameter object
    (several modules with different slow intervals share one poll thread) - a left-over variable of another loop makes every
    parameter wait for the slow interval of whatever module that loop saw last"""
    m = ctx.m
    pt = roles.poll_thread(m)
    ctx.analysed(pt)
    n = 0
    for cmp_ in [x for x in ast.walk(pt.node) if isinstance(x, ast.Compare) and '.timestamp' in src(x) and 'slowinterval' in src(x)]:
        n += 1
        pobjs = {a.value.id for a in ast.walk(cmp_) if isinstance(a, ast.Attribute) and a.attr == 'timestamp' and isinstance(a.value, ast.Name)}
        mods = {a.value.id for a in ast.walk(cmp_) if isinstance(a, ast.Attribute) and a.attr == 'slowinterval' and isinstance(a.value, ast.Name)}
        binder = None
        for a in ancestors(cmp_):
            gens = a.generators if isinstance(a, (ast.GeneratorExp, ast.ListComp, ast.SetComp, ast.DictComp)) else []
            for g in gens + ([a] if isinstance(a, ast.For) else []):
                bound = {x.id for x in ast.walk(g.target) if isinstance(x, ast.Name)}
                if pobjs & bound:
                    binder = bound
                    break
            if binder is not None:
                break
        if binder is None:
            ctx.undecided(f'{pt.qualname}:slow interval of the parameter own module', cmp_, 'binding of the parameter object not found', pt)
            continue
        ctx.check(mods <= binder, f'{pt.qualname}:slow interval of the parameter own module', cmp_, f'`{src(cmp_)}`: module and parameter come from the same item',
                  f'`{src(cmp_)}` takes the slow interval of `{sorted(mods - binder)}`, a variable that is NOT bound together with the parameter object '
                  f'({sorted(binder)}): with several modules on one poll thread a parameter is refreshed according to the slow interval of another module - '
                  'its staleness bound does not hold', pt)
    if not n:
        raise AnchorMissing('age test of slow-polled parameters (timestamp + slowinterval) not found in the poll thread')


@rule('C13.R6', min_instances=6)
def the_poll_loop_does_its_work(ctx):
    """presence and polarity of what bounded staleness rests on: a module whose main interval has expired (`now > last_main +
    interval`, true side) gets doPoll called and its last_main advanced; a due slow parameter (`now > timestamp + ...`, true
    side) gets its read function called; the pollinterval parameter is wired to PollInfo.update_interval; setFastPoll stores
    flag and interval on the side where the module is polled and selects the fast interval when the flag is set;
    update_interval applies the new interval when NOT in fast mode; trigger(immediate) resets last_main"""
    m = ctx.m
    pt = roles.poll_thread(m)
    ctx.analysed(pt)
    cfg = CFG(pt.node, m, pt.module)
    n = 0
    for t in cfg.nodes:
        if t.kind != 'test':
            continue
        core, neg = _t13(t.ast)
        txt = src(core)
        due_main = 'last_main' in txt and 'interval' in txt and any(op in ('<', '<=') for sub in (core.values if isinstance(core, ast.BoolOp) else [core]) for l, op, r in compare_ops(sub))
        due_slow = '.timestamp' in txt and 'slowinterval' in txt
        if not (due_main or due_slow):
            continue
        # polarity: the comparison must be `now > due time` (normalised: due < now)
        cmps = [(l, op, r) for sub in (core.values if isinstance(core, ast.BoolOp) else [core]) for l, op, r in compare_ops(sub) if op in ('<', '<=')]
        expired_true = all(r == 'now' for l, op, r in cmps) != neg
        side = cfg.reach([t.id], labels={'T' if expired_true else 'F'}, avoid=[t.id])
        other = cfg.reach([t.id], labels={'F' if expired_true else 'T'}, avoid=[t.id])
        n += 1
        if due_main:
            owner = getattr(t.ast, 'cfg_owner', None)
            inside = {i for c in calls_in(pt.node) if call_attr(c) == 'callPollFunc' and c.args and 'doPoll' in src(c.args[0])
                      and any(a is owner for a in ancestors(c)) for i in cfg.node_of(c)}
            stamps = {i for tg, v, s in attr_stores(pt.node) if tg.attr == 'last_main' and any(a is owner for a in ancestors(s)) for i in cfg.node_of(s)}
            ok = bool(inside) and inside <= side and bool(stamps & side) and not (stamps & other - side)
            if ok:
                # ... on EVERY way through the expired side (not only where a division succeeded): from the expired edge no path leaves the
                # statement without the poll call
                first = [b for b, lab in cfg.succ[t.id] if lab == ('T' if expired_true else 'F')]
                after = set()
                if owner is not None:
                    own_ids = {i for x in ast.walk(owner) for i in cfg.ids(x)}
                    after = {b for i in own_ids for b, lab in cfg.succ.get(i, []) if b not in own_ids and lab != 'exc'}
                every = not (after & (set(first) | cfg.reach(first, avoid=inside, exc=True))) if after else True
                ctx.check(every, f'{pt.qualname}:an expired main interval is polled on every path', t.ast, 'no way out of the expired branch without callPollFunc(doPoll)',
                          f'`{src(t.ast)}`: a path through the expired branch advances last_main but skips callPollFunc(doPoll) (e.g. the poll call sits in the else clause of '
                          'the ZeroDivisionError handling): with a poll interval of 0 - setFastPoll(True, 0), an IO polled as fast as possible - the module is never polled '
                          'again, without any message', pt)
            ctx.check(ok, f'{pt.qualname}:expired main interval -> doPoll and last_main advanced', t.ast, 'on the expired side: last_main = ..., callPollFunc(doPoll)',
                      f'`{src(t.ast)}`: on the side where the main interval has expired doPoll is not called / last_main is not advanced (or this happens on the other side): '
                      'the module is never polled, or polled without pause', pt)
        else:
            reads = {i for c in calls_in(pt.node) if call_attr(c) == 'callPollFunc' and any(a is getattr(t.ast, 'cfg_owner', None) for a in ancestors(c)) for i in cfg.node_of(c)}
            ok = bool(reads) and reads <= side and not (reads & other - side)
            ctx.check(ok, f'{pt.qualname}:due slow parameter is read', t.ast, 'callPollFunc(rfunc) on the due side',
                      f'`{src(t.ast)}`: the read function of a due parameter is not called on the due side: polled parameters are never refreshed', pt)
    if n < 2:
        raise AnchorMissing('due tests (main interval / slow parameter) not found in the poll thread')
    wired = [c for c in calls_in(pt.node) if call_attr(c) == 'addCallback' and c.args and isinstance(c.args[0], ast.Constant) and c.args[0].value == 'pollinterval'
             and len(c.args) > 1 and 'update_interval' in src(c.args[1])]
    # ... of the SAME module: the poll info handed over is the one of the module the callback is added to (a local that was
    # bound in another loop holds the info of the last module of that loop)
    for c in wired:
        recv = c.func.value
        info = c.args[1].value if isinstance(c.args[1], ast.Attribute) else None
        key = f'{pt.qualname}:pollinterval of a module drives its own poll info'
        if info is None or not isinstance(recv, ast.Name):
            ctx.undecided(key, c, 'form of the wiring not recognised', pt)
            continue
        loop = next((a for a in ancestors(c) if isinstance(a, ast.For)), None)
        if isinstance(info, ast.Attribute) and info.attr == 'pollInfo' and src(info.value) == recv.id:
            ctx.ok(key, c, f'`{src(info)}` of the same module', pt)
        elif isinstance(info, ast.Name):
            defs = [(v, st) for v, st, how in ReachingDefs(cfg, pt.node).at(c, info.id)]
            same = bool(defs) and loop is not None and all(any(a is loop for a in ancestors(st)) and
                                                           (f'{recv.id}.pollInfo' in src(st) or (v is not None and f'{recv.id}.pollInfo' in src(v))) for v, st in defs)
            ctx.check(same, key, c, f'`{info.id}` is bound to {recv.id}.pollInfo in the same loop iteration',
                      f'`{src(c)}`: `{info.id}` is not bound in this loop - it still holds the poll info of the last module of the loop that created them: a run-time '
                      'change of the poll interval of any other module never takes effect on it (and changes the last module\'s interval instead)', pt)
        else:
            ctx.undecided(key, c, 'form of the wiring not recognised', pt)
    ctx.check(bool(wired), f'{pt.qualname}:pollinterval is wired to the poll info', pt.node, "addCallback('pollinterval', pinfo.update_interval)",
              'a change of the pollinterval parameter never reaches PollInfo.interval: it has no effect until restart', pt)
    sf = m.method(roles.MODULE, 'setFastPoll', inherited=False)
    ctx.analysed(sf)
    pic = m.classes.get('frappy.modulebase.PollInfo')
    if pic is not None and ('interval' in pic.methods or 'fast_flag' in pic.methods):
        # another state representation: interval / fast_flag are derived (properties), not stored - what setFastPoll and
        # update_interval have to store is then a question about that representation, which these rules do not model
        ctx.undecided(f'{sf.qualname}:stores flag and interval', sf.node, 'PollInfo.interval / fast_flag are properties: the stored representation is not decided', sf)
        return
    cfgs = CFG(sf.node, m, sf.module)
    st = {tg.attr: (v, s) for tg, v, s in attr_stores(sf.node) if tg.attr in ('fast_flag', 'interval')}
    ctx.check(set(st) == {'fast_flag', 'interval'}, f'{sf.qualname}:stores flag and interval', sf.node, 'both are stored',
              f'setFastPoll stores only {sorted(st)}: switching fast polling has no (or half an) effect', sf)
    for t in cfgs.nodes:
        if t.kind == 'test':
            core, neg = _t13(t.ast)
            if 'pollInfo' in src(core) or (isinstance(core, ast.Name) and any('pollInfo' in src(o) for o in origins(core, sf.node) if o is not core)):
                side = cfgs.reach([t.id], labels={'F' if neg else 'T'}, avoid=[t.id])
                sids = {i for v, s in st.values() for i in cfgs.node_of(s)}
                ctx.check(bool(sids) and sids <= side, f'{sf.qualname}:applied when the module is polled', t.ast, 'stores on the side where pollInfo exists',
                          f'`{src(t.ast)}`: the stores run only when the module has no poll info (AttributeError) - a polled module ignores setFastPoll', sf)
    if 'interval' in st and isinstance(st['interval'][0], ast.IfExp):
        ie = st['interval'][0]
        core, neg = _t13(ie.test)
        fast, slow = (ie.orelse, ie.body) if neg else (ie.body, ie.orelse)
        fparam = sf.node.args.args[2].arg if len(sf.node.args.args) > 2 else 'fast_interval'
        ctx.check(src(core) == sf.node.args.args[1].arg and src(fast) == fparam and 'pollinterval' in src(slow), f'{sf.qualname}:fast interval iff the flag is set', ie,
                  f'`{src(ie)}`', f'`{src(ie)}`: the fast interval is used when fast polling is switched OFF', sf)
    ui = m.method('frappy.modulebase.PollInfo', 'update_interval', inherited=False)
    ctx.analysed(ui)
    cfgu = CFG(ui.node, m, ui.module)
    for t in cfgu.nodes:
        if t.kind == 'test':
            core, neg = _t13(t.ast)
            if src(core) == 'self.fast_flag':
                side = cfgu.reach([t.id], labels={'T' if neg else 'F'}, avoid=[t.id])       # fast_flag false
                sids = {i for tg, v, s in attr_stores(ui.node) if tg.attr == 'interval' for i in cfgu.node_of(s)}
                ctx.check(bool(sids) and sids <= side, f'{ui.qualname}:new poll interval applies outside fast mode', t.ast, 'stored on the not-fast side',
                          f'`{src(t.ast)}`: a changed pollinterval is applied only while fast polling is on', ui)
    tr = m.method('frappy.modulebase.PollInfo', 'trigger', inherited=False)
    cfgt = CFG(tr.node, m, tr.module)
    for t in cfgt.nodes:
        if t.kind == 'test':
            core, neg = _t13(t.ast)
            if src(core) == 'immediate':
                side = cfgt.reach([t.id], labels={'F' if neg else 'T'}, avoid=[t.id])
                sids = {i for tg, v, s in attr_stores(tr.node) if tg.attr == 'last_main' for i in cfgt.node_of(s)}
                ctx.check(bool(sids) and sids <= side, f'{tr.qualname}:immediate resets last_main', t.ast, 'last_main = 0 on the immediate side',
                          f'`{src(t.ast)}`: trigger(immediate=True) does not make the main poll due', tr)


@rule('C13.R9', min_instances=1)
def the_poller_hears_of_a_new_interval_whatever_other_listeners_do(ctx):
    """shared with C05.R2b: a written pollinterval reaches PollInfo.update_interval as ONE of the parameter callbacks of
    announceUpdate, registered last (when the poll thread starts).  Each callback is guarded on its own, inside the loop: a guard
    around the whole loop lets the first failing listener skip the poller's, and the new interval never takes effect"""
    from sa.rules import c05
    c05.callback_guard_handler_is_total(ctx)


@rule('C13.R10', min_instances=1)
def generated_member_readers_are_marked_not_polled_on_every_path(ctx):
    """StructParam generates read_<member> functions that go through read_<struct>; they carry `poll = False` (only the struct is
    polled).  The mark is set on EVERY way from the definition of such a function to the end of the function that creates it -
    behind an early return (`if self.readonly: return rfunc, None`) the reader of a readonly struct keeps the default and the
    poller reads every member, each time through the whole struct"""
    m = ctx.m
    ci = m.classes.get('frappy.extparams.StructParam')
    if ci is None:
        raise AnchorMissing('frappy.extparams.StructParam not found')
    n = 0
    units = sorted(ci.methods.items()) + sorted((q, fi) for q, fi in m.functions.items() if fi.module is ci.module and fi.cls is None and fi.parent is None)
    for name, f in units:      # (the methods of StructParam and the module level factories of frappy.extparams)
        marks = {}
        for t, v, st in attr_stores(f.node):
            if t.attr == 'poll' and isinstance(t.value, ast.Name) and isinstance(v, ast.Constant) and v.value is False:
                marks.setdefault(t.value.id, []).append(st)
        if not marks:
            continue
        cfg = CFG(f.node, m, f.module)
        for d in [x for x in ast.walk(f.node) if isinstance(x, ast.FunctionDef) and x is not f.node and x.name in marks]:
            dids = cfg.ids(d)
            if not dids:
                continue
            n += 1
            ctx.analysed(f)
            sids = [i for st in marks[d.name] for i in cfg.node_of(st)]
            ok = cfg.all_paths_pass(dids, [cfg.exit], sids, exc=False)
            ctx.check(ok, f'{f.qualname}:{d.name} is marked not polled on every path', d, f'`{d.name}.poll = False` lies on every way from the definition to the end of {f.name}',
                      f'{f.name} can be left after `def {d.name}` without passing `{src(marks[d.name][0])}`: on that way the generated reader keeps poll=True and the poll '
                      'thread reads the member parameter although only the struct is to be polled', f)
    if not n:
        raise AnchorMissing('generated reader with `<func>.poll = False` not found in StructParam')


@rule('C13.R11', min_instances=1)
def the_polling_host_has_its_wake_up_event(ctx):
    """shared with C15.R8: the poll thread of a host (a module itself, or its io module) waits on host.triggerPoll; initModule
    creates the missing event ON THE HOST.  Created on the registering module instead, an io module without polls of its own keeps
    triggerPoll = None: its poll thread ends with AttributeError after the first sweep and none of its modules is polled again"""
    from sa.rules import c15
    c15.hosting_a_polled_module_creates_the_wake_up_event(ctx)
