"""C15 - lifecycle: initialise, write config, poll, serve; shutdown in reverse order"""
from sa.core import rule, prop_info
from sa.lib import *  # noqa: F401,F403
from sa.lib import attr_stores, func_calls, origins, compare_ops, loop_anchor, exit_calls
from sa.model import AnchorMissing
from sa.typestate import forward_paths, sdict, sfreeze
from sa import roles

SN = 'frappy.secnode.SecNode'
SRV = 'frappy.server.Server'

prop_info(
    'C15',
    'Decided: R1 get_module returns early for an initialised module, earlyInit dominates initModule and the '
    'initialised mark is set on every normal and handled-exception path; R2 _processCfg runs create -> initialise -> '
    'start -> error exit -> wait for start events in this order and Server.run processes the configuration before any '
    'interface is created; R2b every module that is started was initialised (the start loop\'s collection is covered '
    'by a preceding initialisation loop); R3 Attached.__get__ checks existence and type before it caches the module; '
    'R4 in the poll thread configured writes precede the initial reads which precede the first polls, and the start '
    'callback is invoked exactly once on every path into the steady loop (None-ness typestate); R5 on shutdown every '
    'poll thread is stopped and joined before the first shutdownModule, which runs over the reverse topological order.',
    not_decided='exactly-once over all attachment graphs including cycles (dynamic recursion), start-event time-outs.')


@rule('C15.R1', min_instances=3)
def init_order_once(ctx):
    """SecNode.get_module: early return when initialised; earlyInit before initModule; mark set on all paths"""
    m = ctx.m
    f = m.method(SN, 'get_module', inherited=False)
    ctx.analysed(f)
    cfg = CFG(f.node, m, f.module)
    early = [i for c in calls_in(f.node) if call_attr(c) == 'earlyInit' for i in cfg.node_of(c)]
    init = [i for c in calls_in(f.node) if call_attr(c) == 'initModule' for i in cfg.node_of(c)]
    initcalls = [c for c in calls_in(f.node) if call_attr(c) in ('earlyInit', 'initModule')]
    table_order = None
    if not early and not init:
        # table driven form: `for step, flag in (('earlyInit', ...), ('initModule', ...)): getattr(modobj, step)()`
        for loop in [x for x in body_walk(f.node) if isinstance(x, ast.For) and isinstance(x.iter, (ast.Tuple, ast.List))]:
            firsts = [e for el in loop.iter.elts for e in (el.elts[:1] if isinstance(el, (ast.Tuple, ast.List)) else [el])]
            names = [e.value if isinstance(e, ast.Constant) else e.attr for e in firsts
                     if (isinstance(e, ast.Constant) and isinstance(e.value, str)) or isinstance(e, ast.Attribute)]
            var = loop.target.id if isinstance(loop.target, ast.Name) else (loop.target.elts[0].id if isinstance(loop.target, ast.Tuple) and isinstance(loop.target.elts[0], ast.Name) else None)
            gcalls = [c for c in calls_in(loop) if ((isinstance(c.func, ast.Call) and dotted(c.func.func) == 'getattr' and len(c.func.args) == 2 and src(c.func.args[1]) == var)
                                                    or (isinstance(c.func, ast.Name) and c.func.id == var and not c.args))
                      and not any(isinstance(a, ast.If) and any(a is x for x in ast.walk(loop)) for a in ancestors(c))]
            if 'earlyInit' in names and 'initModule' in names and gcalls:
                table_order = names
                early = init = [i for c in gcalls for i in cfg.node_of(c)]
                initcalls = gcalls
    if not early or not init:
        raise AnchorMissing('earlyInit / initModule calls not found in SecNode.get_module', violation='frappy.secnode.SecNode.get_module:earlyInit and initModule are called')
    tests = [t for t in cfg.nodes if t.kind == 'test' and src(t.ast).replace('not ', '').endswith('._isinitialized')]
    ok = False
    for t in tests:
        neg = src(t.ast).startswith('not ')
        done_side = cfg.reach([t.id], labels={'F' if neg else 'T'}, avoid=[t.id])
        fresh_side = cfg.reach([t.id], labels={'T' if neg else 'F'}, avoid=[t.id])
        if not (done_side & set(early + init)) and all(cfg.dominates([t.id], i) for i in early + init) and set(early + init) <= fresh_side:
            ok = True
    ctx.check(ok, f'{f.qualname}:initialised module returned at once', f.node, '`if modobj._isinitialized: return` dominates the init calls',
              'an already initialised module is initialised again (earlyInit/initModule not exactly once)', f)
    if table_order is not None:
        ctx.check(table_order.index('earlyInit') < table_order.index('initModule'), f'{f.qualname}:earlyInit before initModule', f.node,
                  f'the steps are run in the order {table_order}', 'initModule is listed before earlyInit', f)
    else:
        ctx.check(all(cfg.dominates(early, i) for i in init) and not any(cfg.reachable(i, e) for i in init for e in early),
                  f'{f.qualname}:earlyInit before initModule', f.node, 'earlyInit dominates initModule',
                  'initModule can run before earlyInit', f)
    marks = [i for t, v, s in attr_stores(f.node) if t.attr == '_isinitialized' and isinstance(v, ast.Constant) and v.value is True for i in cfg.node_of(s)]
    ok = bool(marks) and cfg.all_paths_pass(early, [cfg.exit], marks, exc=True)
    ctx.check(ok, f'{f.qualname}:initialised mark set on every path', f.node, 'every path from earlyInit to the return sets _isinitialized',
              'a path (e.g. a failing initModule) leaves the module unmarked: it is initialised again on the next access', f)
    from sa.lib import contained_by_catch_all, handler_reraises
    t_ok = all(contained_by_catch_all(c)[0] is not None and not handler_reraises(contained_by_catch_all(c)[1]) for c in initcalls)
    ctx.check(t_ok, f'{f.qualname}:init errors collected', f.node, 'init calls inside try/except Exception appending to errors',
              'an exception in earlyInit/initModule is not collected as a node error', f)
    for h in [x for x in body_walk(f.node) if isinstance(x, ast.ExceptHandler)]:
        apps = [c for st in h.body for c in calls_in(st) if call_attr(c) == 'append' and 'errors' in src(c.func)]
        ctx.check(bool(apps), f'{f.qualname}:a failing init is reported', h, 'the handler appends to self.errors',
                  'an exception in earlyInit / initModule is swallowed without a node error: the node starts with a half-initialised module', f)


def _start_loops(f):
    return [n for n in body_walk(f.node) if isinstance(n, ast.For) and any(call_attr(c) == 'startModule' for c in calls_in(n))]


def _collection_of(it):
    """normalise the iterated collection: secnode.modules / secnode.export"""
    s = src(it)
    for suffix in ('.items()', '.values()', '.keys()'):
        if s.endswith(suffix):
            s = s[:-len(suffix)]
    if s.startswith('list(') and s.endswith(')'):
        s = s[5:-1]
    return s


@rule('C15.R2', min_instances=4)
def node_start_order(ctx):
    """_processCfg: create -> init -> start -> error exit -> wait; run(): _processCfg before interfaces"""
    m = ctx.m
    f = m.method(SRV, '_processCfg', inherited=False)
    ctx.analysed(f)
    cfg = CFG(f.node, m, f.module)

    def ids(pred):
        return [i for c in calls_in(f.node) if pred(c) for i in cfg.node_of(c)]
    create = ids(lambda c: call_attr(c) == 'create_modules')
    start = ids(lambda c: call_attr(c) == 'startModule')
    exit_ = [i for c in exit_calls(m, f, cfg) for i in cfg.node_of(c)]
    wait = ids(lambda c: call_attr(c) == 'wait' and 'start_events' in src(c.func))
    if not (create and start and exit_ and wait):
        raise AnchorMissing('create_modules / startModule / sys.exit / start_events.wait not found in _processCfg')
    ctx.check(all(cfg.dominates(create, i) for i in start), f'{f.qualname}:create before start', f.node, 'create_modules dominates startModule',
              'modules can be started before all were created', f)
    errtests = [t.id for t in cfg.nodes if t.kind == 'test' and src(t.ast) == 'errors']
    ok = bool(errtests) and all(cfg.dominates(errtests, i) for i in wait) and \
        not (set(wait) & cfg.reach(exit_)) and all(cfg.dominates(errtests, i) for i in exit_)
    ctx.check(ok, f'{f.qualname}:refuse to start before waiting', f.node, 'the `if errors: ... sys.exit` test dominates the wait for start events',
              'the node waits for / reports start events before configuration errors lead to the exit', f)
    ctx.check(not (set(start) & cfg.reach(wait)), f'{f.qualname}:start before wait', f.node, 'all startModule calls precede the wait',
              'a module is started after the wait for start events', f)
    run = m.method(SRV, 'run', inherited=False)
    ctx.analysed(run)
    cfgr = CFG(run.node, m, run.module)
    pc = [i for c in calls_in(run.node) if call_attr(c) == '_processCfg' for i in cfgr.node_of(c)]
    ifc = [i for c in calls_in(run.node) if call_name(c) == 'mkthread' and '_interfaceThread' in src(c) for i in cfgr.node_of(c)]
    if not pc or not ifc:
        raise AnchorMissing('_processCfg call / interface threads not found in Server.run')
    ctx.check(all(cfgr.dominates(pc, i) for i in ifc), f'{run.qualname}:configuration processed before interfaces open', run.node,
              '_processCfg dominates the creation of interface threads', 'an interface can be opened before the modules are started', run)


@rule('C15.R2b', min_instances=1)
def started_modules_were_initialised(ctx):
    """the collection of the startModule loop is covered by a preceding loop that reaches get_module"""
    m = ctx.m
    f = m.method(SRV, '_processCfg', inherited=False)
    ctx.analysed(f)
    cfg = CFG(f.node, m, f.module)
    loops = _start_loops(f)
    if not loops:
        raise AnchorMissing('startModule loop not found')
    gd = m.method(SN, 'get_descriptive_data', inherited=False)
    gd_coll = {_collection_of(n.iter).replace('self.', 'self.secnode.') for n in body_walk(gd.node)
               if isinstance(n, ast.For) and any(call_attr(c) == 'get_module' for c in calls_in(n))}
    for l in loops:
        coll = _collection_of(l.iter)
        covered = []
        lid = cfg.ids(l)
        # explicit init loops in _processCfg
        for n in body_walk(f.node):
            if isinstance(n, ast.For) and n is not l and any(call_attr(c) == 'get_module' for c in calls_in(n)):
                if all(cfg.dominates(cfg.ids(n), i) for i in lid):
                    covered.append(_collection_of(n.iter))
        # implicit: get_descriptive_data iterates its own collection
        for c in calls_in(f.node):
            if call_attr(c) == 'get_descriptive_data' and all(cfg.dominates(cfg.node_of(c), i) for i in lid):
                covered.extend(gd_coll)
        ok = coll in covered
        ctx.check(ok, f'{f.qualname}:every started module was initialised', l,
                  f'start loop iterates `{coll}`, initialisation covers {sorted(set(covered))}',
                  f'the start loop iterates `{coll}` but initialisation (get_module) only covers {sorted(set(covered))}: a module '
                  'configured with export=False that nobody attaches gets startModule without earlyInit/initModule and is never polled', f)


@rule('C15.R3', min_instances=2)
def attachments_checked(ctx):
    """Attached.__get__: existence and type check (ConfigError) dominate the caching store"""
    m = ctx.m
    f = m.method('frappy.modules.Attached', '__get__', inherited=False)
    ctx.analysed(f)
    cfg = CFG(f.node, m, f.module)
    stores = [n for n in body_walk(f.node) if isinstance(n, ast.Subscript) and isinstance(n.ctx, ast.Store) and 'attachedModules' in src(resolved(n.value, f.node))]
    if not stores:
        raise AnchorMissing('store into attachedModules not found')
    sid = [i for s in stores for i in cfg.node_of(s)]
    for what, pred in (('existence', lambda t: src(t).startswith('not ') and 'isinstance' not in src(t)),
                       ('type', lambda t: 'isinstance' in src(t) and 'basecls' in src(t))):
        ifs = [n for n in body_walk(f.node) if isinstance(n, ast.If) and pred(n.test) and n.body and isinstance(n.body[0], ast.Raise)
               and 'ConfigError' in src(n.body[0])]
        ok = bool(ifs) and any(all(cfg.dominates(cfg.ids(n.test), i) for i in sid) for n in ifs)
        if not ok:
            # the refusal may be reported through a flag (`complaint = ...` / `if complaint: raise`): from the failing side of the test of
            # the looked-up object, the store is not reachable (flags bound to literals are followed)
            gmc = [i for c in calls_in(f.node) if call_attr(c) == 'get_module' for i in cfg.node_of(c)]
            found = False
            clean = True
            for t in cfg.nodes:
                if t.kind != 'test' or isinstance(t.ast, ast.stmt) or not gmc or not cfg.dominates(gmc, t.id):
                    continue
                core, neg = t.ast, False
                while isinstance(core, ast.UnaryOp) and isinstance(core.op, ast.Not):
                    core, neg = core.operand, not neg
                hit = (isinstance(core, ast.Name) and what == 'existence') or \
                    (what == 'type' and isinstance(core, ast.Call) and dotted(core.func) == 'isinstance' and 'basecls' in src(core))
                if not hit:
                    continue
                fail = [b for b, lab in cfg.succ[t.id] if lab == ('T' if neg else 'F')]
                if set(sid) & reach_with_flags(cfg, fail, avoid=[]):
                    # (an existence test may be repeated as the guard of the store itself: only the first one after the lookup counts)
                    if what == 'type' or not found:
                        clean = False
                found = True
            ok = found and clean and any('ConfigError' in src(r) for r in body_walk(f.node) if isinstance(r, ast.Raise))
        ctx.check(ok, f'{f.qualname}:{what} check before caching', f.node, f'the {what} check (ConfigError) dominates the store',
                  f'an attached module is cached without the {what} check: a missing / wrongly typed attachment is not reported as a configuration error', f)
    gm = [i for c in calls_in(f.node) if call_attr(c) == 'get_module' for i in cfg.node_of(c)]
    ctx.check(bool(gm) and (all(cfg.dominates(gm, i) for i in sid) or not (set(sid) & reach_with_flags(cfg, [cfg.entry], avoid=gm))),
              f'{f.qualname}:attached module fully initialised', f.node,
              'the module comes from secNode.get_module (initialised)', 'the attached module is not obtained through get_module', f)


@rule('C15.R3b', min_instances=1)
def attachment_cache_has_one_writer(ctx):
    """attachedModules is the cache of Attached.__get__: an entry means "this module came out of secNode.get_module(), i.e. is
    fully initialised, exists and has the right class".  Nobody else may put a module object there - a pre-filled entry hands
    an uninitialised module to its user (HasIO creating its communicator and registering it itself)"""
    m = ctx.m
    n = 0
    for q, f in sorted(m.functions.items()):
        if not f.module.name.startswith('frappy.') or f.module.name.startswith('frappy.gui'):
            continue
        for x in body_walk(f.node):
            xv = resolved(x.value, f.node) if isinstance(x, ast.Subscript) and isinstance(x.ctx, ast.Store) and isinstance(x.value, ast.Name) else getattr(x, 'value', None)
            if isinstance(x, ast.Subscript) and isinstance(x.ctx, ast.Store) and isinstance(xv, ast.Attribute) and xv.attr == 'attachedModules':
                n += 1
                ctx.analysed(f)
                ctx.check(q == 'frappy.modules.Attached.__get__', f'{q}:attachment cache written by Attached.__get__ only', x, 'the cache writer',
                          f'`{src(x)}` puts a module into the attachment cache outside Attached.__get__: the cached object did not go through '
                          'secNode.get_module() - its earlyInit / initModule have not run when the user of the attachment sees it', f)
            if isinstance(x, ast.Call) and call_attr(x) in ('update', 'setdefault') and isinstance(x.func.value, ast.Attribute) and x.func.value.attr == 'attachedModules':
                ctx.analysed(f)
                ctx.bad(f'{q}:attachment cache written by Attached.__get__ only', x, f'`{src(x)}` fills the attachment cache outside Attached.__get__', f)
    if not n:
        raise AnchorMissing('no store into attachedModules found')


@rule('C15.R4', min_instances=3)
def poll_thread_startup(ctx):
    """writes -> initial reads -> first polls -> steady loop; start callback exactly once"""
    m = ctx.m
    pt = roles.poll_thread(m)
    ctx.analysed(pt)
    cfg = CFG(pt.node, m, pt.module)
    steady = [n for n in body_walk(pt.node) if isinstance(n, ast.While) and src(n.test) == 'modules']
    if not steady:
        raise AnchorMissing('steady loop not found')
    head = cfg.ids(steady[0].test)
    wi = [i for c in calls_in(pt.node) if call_attr(c) == 'writeInitParams' for i in loop_anchor(cfg, c)]
    ir = [i for c in calls_in(pt.node) if call_attr(c) == 'initialReads' for i in cfg.node_of(c)]
    fp = [i for c in calls_in(pt.node) if call_attr(c) == 'callPollFunc' and not any(a is steady[0] for a in ancestors(c)) for i in cfg.node_of(c)]
    if not (wi and ir and fp):
        raise AnchorMissing('writeInitParams / initialReads / first polls not found in the poll thread', violation='frappy.modulebase.Module.__pollThread:writes, initial reads and first polls present')
    ctx.check(all(cfg.dominates(wi, i) for i in ir + fp), f'{pt.qualname}:configured writes first', pt.node,
              'writeInitParams dominates initialReads and the first polls', 'a read/poll can happen before the configured values were written', pt)
    # ... of ALL modules of the thread: the loop writing the configured values has ended before anything is polled (a fused
    # loop "write, read, poll" per module polls the first module before the second one's configured values are written)
    wloops = {id(a) for c in calls_in(pt.node) if call_attr(c) == 'writeInitParams' for a in ancestors(c) if isinstance(a, ast.For)}
    for c in [c for c in calls_in(pt.node) if call_attr(c) == 'callPollFunc' and not any(a is steady[0] for a in ancestors(c))]:
        fused = [a for a in ancestors(c) if id(a) in wloops]
        ctx.check(not fused, f'{pt.qualname}:all configured writes precede the first poll', c, 'the first polls are outside the loop that writes the configured values',
                  f'`{src(c)}` runs inside the same loop as writeInitParams: the first module of the thread is polled before the configured values of the '
                  'following modules have been written to the hardware', pt)
    mods_param = pt.node.args.args[1].arg if len(pt.node.args.args) > 1 else 'modules'
    for c in calls_in(pt.node):
        if call_attr(c) == 'writeInitParams':
            loop = next((a for a in ancestors(c) if isinstance(a, ast.For)), None)
            ok = loop is not None and src(loop.iter) == mods_param
            ctx.check(ok, f'{pt.qualname}:configured writes for every module of the thread', c, f'loop over `{mods_param}` (all modules handed to the thread)',
                      f'writeInitParams is called in a loop over `{src(loop.iter) if loop is not None else "?"}`, not over all modules of the thread: a module '
                      'with enablePoll=False, for which the thread was started only because of its configured writes, never gets them written', pt)
    ctx.check(cfg.all_paths_pass([cfg.entry], [cfg.exit], wi, exc=False), f'{pt.qualname}:configured writes on every way through the thread', pt.node,
              'no normal exit of the poll thread without writeInitParams',
              'the thread can end (e.g. "nothing to poll") before the configured values were written: a module that is in the thread only because of its configured '
              'writes (enablePoll = False) never gets them handed to its write methods, the node reports "all modules started" all the same', pt)
    ctx.check(all(cfg.dominates(wi, h) for h in head), f'{pt.qualname}:writes before steady loop', pt.node,
              'writeInitParams dominates the steady loop', 'the steady loop can start before configured values were written', pt)
    # started_callback exactly once: path-sensitive None-ness typestate
    cbname = pt.node.args.args[-1].arg
    calls = {i for c in calls_in(pt.node) if isinstance(c.func, ast.Name) and c.func.id == cbname for i in cfg.node_of(c)}
    if not calls:
        # the invocation may be wrapped in a local closure that guards itself: `def done(): nonlocal cb; if cb: cb(); cb = None` -
        # calling it any number of times invokes the callback once; it has to be called on every way to the steady loop / the exit
        wrappers = []
        for lst in pt.nested.values():
            for nf in lst:
                inner = [c for c in calls_in(nf.node) if isinstance(c.func, ast.Name) and c.func.id == cbname]
                ncfg = CFG(nf.node, m, nf.module)
                guarded = inner and all(set(ncfg.node_of(c)) <= sides_with_fact(ncfg, lambda a, tv: tv and isinstance(a, ast.Name) and a.id == cbname) for c in inner)
                clears = [i for x in body_walk(nf.node) if isinstance(x, ast.Assign) and any(isinstance(t, ast.Name) and t.id == cbname for t in x.targets)
                          and isinstance(x.value, ast.Constant) and x.value.value is None for i in ncfg.node_of(x)]
                nonloc = any(isinstance(x, ast.Nonlocal) and cbname in x.names for x in body_walk(nf.node))
                if guarded and nonloc and clears and all(ncfg.all_paths_pass(ncfg.node_of(c), [ncfg.exit], clears, exc=False) for c in inner):
                    wrappers.append(nf.name)
        wcalls = {i for c in calls_in(pt.node) if isinstance(c.func, ast.Name) and c.func.id in wrappers for i in cfg.node_of(c)}
        if wrappers and wcalls:
            rets = [i for n in body_walk(pt.node) if isinstance(n, ast.Return) and not any(a is steady[0] for a in ancestors(n)) for i in cfg.ids(n)]
            ok = cfg.all_paths_pass([cfg.entry], list(head) + rets, wcalls, exc=False)
            ctx.check(ok, f'{pt.qualname}:start callback exactly once', pt.node, f'the self-guarding closure `{wrappers[0]}` is called on every way to the steady loop',
                      f'a path reaches the steady loop (or the exit without polling) without calling `{wrappers[0]}`: the server waits for the start time-out', pt)
            return
        ctx.bad(f'{pt.qualname}:start callback exactly once', pt.node, 'the start callback is never invoked: the server waits for the start time-out', pt)
        return

    def transfer(node, state):
        d = sdict(state)
        a = node.ast
        if node.id in calls:
            d['n'] = min(d['n'] + 1, 2)
        if isinstance(a, ast.Assign):
            for t in a.targets:
                if isinstance(t, ast.Name) and t.id == cbname:
                    d['cb'] = 'None' if isinstance(a.value, ast.Constant) and a.value.value is None else 'Top'
        return sfreeze(d)

    def edge(node, label, sin, sout):
        if label == 'exc':
            return sin
        if node.kind == 'test' and src(node.ast) == cbname:
            cb = sdict(sout)['cb']
            if cb == 'None' and label == 'T':
                return None
            if cb == 'Set' and label == 'F':
                return None
        return sout

    ins = forward_paths(cfg, {sfreeze({'cb': 'Set', 'n': 0})}, transfer, edge)
    # destinations: steady loop head, and the `return` taken when nothing is polled
    rets = [i for n in body_walk(pt.node) if isinstance(n, ast.Return) and not any(a is steady[0] for a in ancestors(n)) for i in cfg.ids(n)]
    for what, nodes in (('steady loop', head), ('exit without polling', rets)):
        counts = sorted({sdict(s)['n'] for i in nodes for s in ins.get(i, ())})
        if not counts:
            ctx.undecided(f'{pt.qualname}:start callback exactly once ({what})', pt.node, 'destination not reachable', pt)
            continue
        ctx.check(counts == [1], f'{pt.qualname}:start callback exactly once ({what})', pt.node,
                  'on every feasible path the start callback was invoked exactly once',
                  f'paths reach the {what} with the start callback invoked {counts} times (2 = more than once): '
                  'the server either waits for the start time-out or the trigger is fired twice', pt)


@rule('C15.R7', min_instances=2)
def pending_start_events_are_kept_by_identity(ctx):
    """Server._processCfg waits on ONE MultiEvent for all start triggers; several triggers may carry the same name (every
    trigger a module asks for in startModule is called 'module <name>').  MultiEvent therefore has to keep the pending events
    by identity (the event object itself is the member / key): kept by name, a second trigger of the same name replaces the
    first, and when it fires the node counts as started while a poll thread is still in its first round"""
    m = ctx.m
    ci = m.classes.get('frappy.lib.multievent.MultiEvent')
    if ci is None:
        raise AnchorMissing('frappy.lib.multievent.MultiEvent not found')
    n = 0
    for name in ('clear_', 'set_'):
        f = ci.methods.get(name)
        if f is None:
            raise AnchorMissing(f'MultiEvent.{name} not found')
        ctx.analysed(f)
        ev = f.node.args.args[1].arg
        keys = []
        for c in calls_in(f.node):
            if call_attr(c) in ('add', 'discard', 'remove', 'pop', 'append') and src(c.func.value) == 'self.events' and c.args:
                keys.append((c, c.args[0]))
        for x in body_walk(f.node):
            if isinstance(x, ast.Subscript) and src(x.value) == 'self.events':
                keys.append((x, x.slice))
        for site, k in keys:
            n += 1
            ctx.check(isinstance(k, ast.Name) and k.id == ev, f'{f.qualname}:pending events kept by identity', site, f'`{src(site)}`: the event object itself',
                      f'`{src(site)}` files the pending event under `{src(k)}` instead of the event object: two triggers with the same name collapse into one '
                      'entry - when the second fires, the multi-event is set although the first (the first poll round of a module) is still pending', f)
    if n < 2:
        raise AnchorMissing('updates of self.events in MultiEvent.clear_ / set_ not found')


@rule('C15.R5', min_instances=3)
def shutdown_order(ctx):
    """stop/join all pollers before any shutdownModule; shutdownModule over the reverse topological order"""
    m = ctx.m
    f = m.method(SN, 'shutdown_modules', inherited=False)
    ctx.analysed(f)
    cfg = CFG(f.node, m, f.module)
    stop = [i for c in calls_in(f.node) if call_attr(c) in ('stopPollThread', 'joinPollThread') for i in cfg.node_of(c)]
    stop_anchor = [i for c in calls_in(f.node) if call_attr(c) in ('stopPollThread', 'joinPollThread') for i in loop_anchor(cfg, c)]
    shut = [c for c in calls_in(f.node) if call_attr(c) == 'shutdownModule']
    shut_ids = [i for c in shut for i in cfg.node_of(c)]
    have = {call_attr(c) for c in calls_in(f.node)}
    ctx.check({'stopPollThread', 'joinPollThread'} <= have, f'{f.qualname}:pollers are stopped and joined', f.node, 'stopPollThread and joinPollThread are both called',
              f'only {sorted(have & {"stopPollThread", "joinPollThread"})} is called: poll threads are still running (or never told to stop) while modules are shut down', f)
    if not stop or not shut:
        raise AnchorMissing('stopPollThread/joinPollThread/shutdownModule calls not found in shutdown_modules', violation='frappy.secnode.SecNode.shutdown_modules:stop, join and shutdown present')
    ok = not (cfg.reach(shut_ids) & set(stop)) and all(cfg.dominates(stop_anchor, i) for i in shut_ids)
    ctx.check(ok, f'{f.qualname}:pollers stopped before shutdown', f.node, 'every stop/join precedes every shutdownModule',
              'a module can be shut down while a poll thread is still running (or a poller is stopped after a shutdownModule)', f)
    joins = [c for c in calls_in(f.node) if call_attr(c) == 'joinPollThread']
    ctx.check(bool(joins), f'{f.qualname}:pollers joined', f.node, 'joinPollThread is called', 'poll threads are not joined before shutdown', f)
    for c in shut:
        loop = next((a for a in ancestors(c) if isinstance(a, ast.For)), None)
        ok = loop is not None and ('_getSortedModules' in src(loop.iter) or
                                   (isinstance(loop.iter, ast.Name) and (oo := origins(loop.iter, f.node)) and all('_getSortedModules' in src(o) for o in oo)))
        ctx.check(ok, f'{f.qualname}:shutdown in sorted order', c, 'iterates _getSortedModules()',
                  'shutdownModule does not run over the dependency-sorted order', f)
    g = m.method(SN, '_getSortedModules', inherited=False)
    ctx.analysed(g)
    go = g.nested.get('go', [None])[0]
    if go is None:
        raise AnchorMissing('nested function go in _getSortedModules not found')
    cfgg = CFG(go.node, m, go.module)
    apps = [c for c in calls_in(go.node) if call_attr(c) == 'append']
    # the recursion over the attached modules: a for loop, or any statement holding the recursive call in a
    # comprehension (`if not all(go(x.name) for x in attached)`), fed by attachedModules directly or through a local
    rec = [c for c in calls_in(go.node) if isinstance(c.func, ast.Name) and c.func.id == go.node.name]
    loops = []
    for c in rec:
        chain = []
        for a in ancestors(c):
            if a is go.node:
                break
            if isinstance(a, ast.stmt):
                chain.append(a)
        if chain:
            loops.append(chain[-1])   # outermost statement of go() holding the recursive call
    if not apps or not loops or not any(isinstance(n, ast.Attribute) and n.attr == 'attachedModules' for n in body_walk(go.node)):
        raise AnchorMissing('post-order append / recursion over attachedModules not found in go()')
    lid = cfgg.ids(loops[0]) or (cfgg.ids(loops[0].test) if hasattr(loops[0], 'test') else cfgg.node_of(rec[0]))
    post = all(cfgg.dominates(lid, i) for c in apps for i in cfgg.node_of(c)) and \
        not any(cfgg.reachable(i, l) for c in apps for i in cfgg.node_of(c) for l in lid)
    pre_insert = any(call_attr(c) == 'insert' for c in calls_in(go.node))
    rets = [n for n in body_walk(g.node) if isinstance(n, ast.Return) and n.value is not None]
    lname = src(apps[0].func.value)
    forms = []
    for r in rets:
        s = src(r.value)
        if s.startswith(f'{lname}[::-1]') or s.startswith(f'reversed({lname})') or s.startswith(f'list(reversed({lname}))'):
            forms.append('reversed')
        elif s.startswith(lname):
            forms.append('plain')
        else:
            forms.append('unknown')
    if 'unknown' in forms or pre_insert:
        ctx.undecided(f'{g.qualname}:users before the modules they are attached to', g.node, f'order form not recognised: {forms}', g)
    else:
        ok = post and all(x == 'reversed' for x in forms)
        ctx.check(ok, f'{g.qualname}:users before the modules they are attached to', g.node,
                  'a module is appended after its attached modules and the list is returned reversed',
                  f'post-order={post}, return forms={forms}: the resulting order shuts an attached module (e.g. the communicator) down before its users', g)


@rule('C15.R4b', min_instances=1)
def start_trigger_registered_before_the_thread_runs(ctx):
    """startModule obtains the start trigger (start_events.get_trigger()) itself, i.e. before the poll thread exists: the
    server's wait can then never find an empty set of start events while a poll thread has not even begun"""
    m = ctx.m
    sm = m.method(roles.MODULE, 'startModule', inherited=False)
    ctx.analysed(sm)
    cfg = CFG(sm.node, m, sm.module)
    mk = [c for c in calls_in(sm.node) if dotted(c.func) in ('mkthread', 'threading.Thread')]
    if not mk:
        raise AnchorMissing('mkthread call not found in Module.startModule', violation=f'{sm.qualname}:poll thread started')
    ev = sm.node.args.args[1].arg if len(sm.node.args.args) > 1 else 'start_events'
    for c in mk:
        trig_here = [x for x in calls_in(sm.node) if call_attr(x) == 'get_trigger']
        as_arg = any(isinstance(a, ast.Call) and call_attr(a) == 'get_trigger' for a in c.args) or \
            any(all(cfg.dominates(cfg.node_of(t), i) for i in cfg.node_of(c)) for t in trig_here)
        passes_events = any(isinstance(a, ast.Name) and a.id == ev for a in c.args)
        ctx.check(as_arg and not passes_events, f'{sm.qualname}:start trigger obtained before the thread is started', c,
                  'get_trigger() is evaluated in startModule and handed to the thread',
                  'the start trigger is not obtained in startModule (the MultiEvent itself is handed to the thread): when the main thread reaches '
                  'start_events.wait() before the new thread registered its trigger, nothing is registered and the node reports ready before '
                  'the configured values were written and the first polls were done', sm)


@rule('C15.R6', min_instances=2)
def start_event_flag_follows_the_pending_set(ctx):
    """MultiEvent (the server waits on it for 'all poll threads finished their first round'): the flag of the underlying
    Event is cleared whenever an event is added (clear_: add, then clear, on every path) and set only when the last
    pending event is gone (set_: the set() call is behind the `if self.events: return` test) - otherwise the wait
    returns while a poll thread registered later has not finished its first round"""
    m = ctx.m
    ME = 'frappy.lib.multievent.MultiEvent'
    cl = m.method(ME, 'clear_', inherited=False)
    ctx.analysed(cl)
    cfg = CFG(cl.node, m, cl.module)
    adds = [i for c in calls_in(cl.node) if call_attr(c) == 'add' and 'events' in src(c.func) for i in cfg.node_of(c)]
    clears = [i for c in calls_in(cl.node) if call_attr(c) == 'clear' and 'super()' in src(c.func) for i in cfg.node_of(c)]
    if not adds:
        raise AnchorMissing('MultiEvent.clear_ does not add to self.events')
    ok = bool(clears) and cfg.all_paths_pass(adds, [cfg.exit], clears, exc=False)
    ctx.check(ok, f'{cl.qualname}:flag cleared whenever an event is added', cl.node, 'events.add(...) is followed by super().clear() on every path',
              'an event can be added without clearing the flag: once all earlier events were set, the flag stays set although a new event is '
              'pending - Server._processCfg stops waiting (reports ready) while the poll thread of a later module has not finished its first round', cl)
    st = m.method(ME, 'set_', inherited=False)
    ctx.analysed(st)
    cfgs = CFG(st.node, m, st.module)
    sets = [i for c in calls_in(st.node) if call_attr(c) == 'set' and 'super()' in src(c.func) for i in cfgs.node_of(c)]
    tests = [t.id for t in cfgs.nodes if t.kind == 'test' and src(t.ast) in ('self.events', 'not self.events')]
    ok = bool(sets) and bool(tests)
    for t in tests:
        on_t = cfgs.reach([t], labels={'T'}, avoid=[t])
        on_f = cfgs.reach([t], labels={'F'}, avoid=[t])
        pending_side = on_t if src(cfgs.nodes[t].ast) == 'self.events' else on_f
        ok = ok and not (set(sets) & pending_side) and all(cfgs.dominates([t], i) for i in sets)
    ctx.check(ok, f'{st.qualname}:flag set only when nothing is pending', st.node, 'super().set() only behind the emptiness test of self.events',
              'the flag can be set while events are still pending', st)



@rule('C15.R5b', min_instances=2)
def serving_ends_with_the_module_shutdown(ctx):
    """Server.run: after the interface threads have ended (join loop) the modules are shut down (secnode.shutdown_modules()),
    on every path that leaves a turn of the serving loop after the interfaces were opened; the discovery responder thread is
    started next to its construction"""
    m = ctx.m
    run = m.method(SRV, 'run', inherited=False)
    ctx.analysed(run)
    cfg = CFG(run.node, m, run.module)
    shut = [i for c in calls_in(run.node) if call_attr(c) == 'shutdown_modules' for i in cfg.node_of(c)]
    joins = [i for c in calls_in(run.node) if call_attr(c) == 'join' for i in cfg.node_of(c)]
    ctx.check(bool(shut), f'{run.qualname}:modules are shut down when serving ends', run.node, 'self.secnode.shutdown_modules()',
              'Server.run never shuts the modules down: no shutdownModule, poll threads keep running into interpreter exit', run)
    if shut and joins:
        ctx.check(not (set(joins) & cfg.reach(shut, avoid=[t.id for t in cfg.nodes if t.kind == 'test' and 'self._restart' in src(t.ast) and isinstance(getattr(t.ast, 'cfg_owner', None), ast.While)])),
                  f'{run.qualname}:shutdown after the interfaces ended', run.node, 'the join of the interface threads precedes shutdown_modules()',
                  'the modules are shut down while the interfaces are still serving requests', run)
    g = m.method(SN, '_getSortedModules', inherited=False)
    go = g.nested.get('go', [None])[0]
    if go is None:
        return
    ctx.analysed(g)
    cfgg = CFG(go.node, m, go.module)
    p = go.node.args.args[0].arg
    for t in cfgg.nodes:
        if t.kind != 'test':
            continue
        for l, op, r in compare_ops(t.ast):
            if l == p and op in ('in', 'notin') and r in ('done', 'visited'):
                side = cfgg.reach([t.id], labels={'T' if op == 'in' else 'F'}, avoid=[t.id])
                want = r == 'done'
                rets = [n for n in body_walk(go.node) if isinstance(n, ast.Return) and isinstance(n.value, ast.Constant) and n.value.value is want
                        and set(cfgg.ids(n)) <= side and any(a is getattr(t.ast, 'cfg_owner', None) for a in ancestors(n))]
                ctx.check(bool(rets), f'{g.qualname}:a module {"already sorted" if want else "met again on the current path (cycle)"} returns {want}', t.ast,
                          f'`if {p} in {r}: return {want}`',
                          f'`{src(t.ast)}`: the depth-first sort does not return {want} on the side where the module is in `{r}`: '
                          + ('finished modules are sorted again' if want else 'a cyclic attachment is not detected / every module looks cyclic'), g)
    marks = [i for c in calls_in(go.node) if call_attr(c) == 'add' and src(c.func.value) == 'done' for i in cfgg.node_of(c)]
    fin = [i for n in body_walk(go.node) if isinstance(n, ast.Return) and isinstance(n.value, ast.Constant) and n.value.value is True and n is go.node.body[-1] for i in cfgg.ids(n)]
    ctx.check(bool(marks) and bool(fin) and all(cfgg.dominates(marks, i) for i in fin), f'{g.qualname}:a sorted module is marked done', go.node, 'done.add(name) before the final return True',
              'modules are never marked as done: shared attachments are sorted (appended) several times', g)


@rule('C15.R6b', min_instances=1)
def start_deadline_covers_every_pending_event(ctx):
    """MultiEvent.deadline() is the maximum over the deadlines of the events still pending (computed when asked): the server's
    wait for the first poll round ends at the latest of them - a remembered value (the newest event's deadline) ends the wait
    early when a later module asked for a shorter time-out"""
    m = ctx.m
    f = m.method('frappy.lib.multievent.MultiEvent', 'deadline', inherited=False)
    ctx.analysed(f)
    loads = {n.attr for n in body_walk(f.node) if isinstance(n, ast.Attribute) and dotted(n.value) == 'self' and isinstance(n.ctx, ast.Load)}
    over = any(isinstance(n, (ast.For, ast.comprehension)) and 'self.events' in src(n.iter) for n in body_walk(f.node)) or \
        any(isinstance(c, ast.Call) and dotted(c.func) == 'max' and 'self.events' in src(c) for c in calls_in(f.node))
    mx = any(isinstance(c, ast.Call) and dotted(c.func) == 'max' for c in calls_in(f.node))
    ctx.check(over and mx and loads <= {'events'}, f'{f.qualname}:maximum over the pending events', f.node, 'max(event.deadline for the events in self.events)',
              f'deadline() reads self.{sorted(loads)} and ' + ('does not take the maximum over self.events' if not (over and mx) else 'other state') +
              ': the wait of Server._processCfg can end before the poll thread with the latest deadline finished its first round', f)


@rule('C15.R8', min_instances=1)
def hosting_a_polled_module_creates_the_wake_up_event(ctx):
    """initModule: a module that registers itself in the polledModules of a host (itself, or its io module) makes the host run
    a poll thread; that thread waits on host.triggerPoll and stopPollThread() sets it at shutdown - so on every path that
    registers, the host's triggerPoll is created (or was found to exist).  Otherwise a communicator that does not poll and has
    nothing to write hosts a thread without event: the thread dies in its first wait and shutdown_modules ends with
    AttributeError in stopPollThread before any module is shut down"""
    m = ctx.m
    f = m.method(roles.MODULE, 'initModule', inherited=False)
    ctx.analysed(f)
    cfg = CFG(f.node, m, f.module)
    regs = [c for c in calls_in(f.node) if call_attr(c) in ('append', 'add') and isinstance(c.func.value, ast.Attribute) and c.func.value.attr == 'polledModules']
    if not regs:
        raise AnchorMissing('registration in polledModules not found in initModule')

    def alternatives(e):
        r = resolved(e, f.node)
        return {src(x) for x in ([r.body, r.orelse] if isinstance(r, ast.IfExp) else [r])} | {src(e)}
    for c in regs:
        host = c.func.value.value
        alts = alternatives(host)
        stores = [i for t, v, st in attr_stores(f.node) if t.attr == 'triggerPoll' and (alternatives(t.value) & alts) and
                  isinstance(v, ast.Call) and 'Event' in src(v.func) for i in cfg.node_of(st)]
        rid = list(cfg.node_of(c))
        # paths registration -> end without creating the event are fine only where a test found the event to exist
        after = paths_need_fact(cfg, rid, [cfg.exit], lambda a, tv: tv and isinstance(a, ast.Attribute) and a.attr == 'triggerPoll' and src(a.value) in alts,
                                avoid=stores)
        # ... or the event was created before the registration on every path to it
        before = bool(stores) and cfg.all_paths_pass([cfg.entry], rid, stores, exc=False)
        ctx.check(after or before, f'{f.qualname}:the host of a polled module has its wake-up event', c,
                  f'every path registering in `{src(c.func.value)}` creates `{src(host)}.triggerPoll` or found it set',
                  f'`{src(c)}` makes `{src(host)}` run a poll thread, but a path leaves initModule without `{src(host)}.triggerPoll` having been created or '
                  'tested: a communicator with enablePoll = False and nothing to write keeps triggerPoll = None - its poll thread dies in the first wait and '
                  'stopPollThread() raises AttributeError at shutdown, before any module is shut down', f)


@rule('C15.R9', min_instances=1)
def every_configured_start_value_is_written(ctx):
    """shared with C10.R11: the first round of the poll thread writes EVERY configured start value before the first poll - also the
    ones that are false (0, False, an empty string)"""
    from sa.rules import c10
    c10.a_false_start_value_is_still_a_value(ctx)



@rule('C15.R3c', min_instances=1)
def only_modules_are_cached_as_attachments(ctx):
    """Attached.__get__: what is stored into attachedModules is a module object - the store lies where the looked-up object was
    found truthy (after `if not modobj: raise`, or under `if modobj:`).  A None cached for an optional attachment that is not
    configured ends up among the values SecNode._getSortedModules walks at shutdown (`module.name`): the AttributeError leaves
    shutdown_modules before the first shutdownModule(), no module is shut down at all"""
    m = ctx.m
    f = m.method('frappy.modules.Attached', '__get__', inherited=False)
    ctx.analysed(f)
    cfg = CFG(f.node, m, f.module)
    n = 0
    for st in body_walk(f.node):
        if not isinstance(st, ast.Assign):
            continue
        tg = [t for t in st.targets if isinstance(t, ast.Subscript) and 'attachedModules' in src(resolved(t.value, f.node))]
        if not tg:
            continue
        n += 1
        v = st.value
        names = {t.id for t in st.targets if isinstance(t, ast.Name)} | ({v.id} if isinstance(v, ast.Name) else set())
        ids = set(cfg.ids(st))
        if isinstance(v, ast.Name):
            truthy = sides_with_fact(cfg, lambda a, tv: (tv and isinstance(a, ast.Name) and a.id in names) or
                                     (isinstance(a, ast.Compare) and len(a.ops) == 1 and isinstance(a.left, ast.Name) and a.left.id in names
                                      and isinstance(a.comparators[0], ast.Constant) and a.comparators[0].value is None
                                      and ((not tv and isinstance(a.ops[0], ast.Is)) or (tv and isinstance(a.ops[0], ast.IsNot)))))
            ctx.check(bool(ids) and ids <= truthy, f'{f.qualname}:only a module object is cached', st, f'`{src(v)}` was tested before it is stored',
                      f'`{src(st)}` is reached without a test that `{src(v)}` is a module: for an optional attachment that is not configured None is cached, '
                      'and the shutdown walk over attachedModules fails on it before any module was shut down', f)
            continue
        # the result of a call stored at once (`modobj = known[self.name] = self._lookup(...)`): a helper that can hand back None
        h = m.method('frappy.modules.Attached', v.func.attr) if isinstance(v, ast.Call) and isinstance(v.func, ast.Attribute) and dotted(v.func.value) == 'self' \
            and m.has_method('frappy.modules.Attached', v.func.attr) else None
        if h is not None and any(isinstance(r, ast.Return) and (r.value is None or (isinstance(r.value, ast.Constant) and r.value.value is None)) for r in body_walk(h.node)):
            ctx.bad(f'{f.qualname}:only a module object is cached', st, f'`{src(st)}` stores what {h.name}() returns, and that is None when no module name is configured: '
                    'None is cached as an attachment and the shutdown walk over attachedModules fails on it', f)
        else:
            ctx.undecided(f'{f.qualname}:only a module object is cached', st, f'`{src(v)}`: the stored value is not a tested local', f)
    if not n:
        raise AnchorMissing('store into attachedModules not found in Attached.__get__')


@rule('C15.R11', min_instances=1)
def a_falsy_start_value_is_a_given_value(ctx):
    """shared with C04.R8 / C06.R7: whether a start value was GIVEN (configured or as Parameter argument) decides whether it enters
    writeDict and is written before the first poll; it is asked by identity (`pobj.value is None`).  A truth test takes the
    configured values 0, 0.0, False, '' and empty arrays as not given: they are never written, the parameter silently starts with
    its class default"""
    from sa.rules import common
    common.truthiness_on_value_slots(ctx, {'frappy.modulebase', 'frappy.modules', 'frappy.params'})
