"""C04 - no invalid, forbidden or out-of-limit request ever reaches the driver"""
from sa.core import rule, prop_info
from sa.lib import *  # noqa: F401,F403
from sa.lib import ReachingDefs, is_method_call, func_calls, enclosing_tries, attr_stores, handler_catches_all, origins
from sa.model import AnchorMissing, kwarg, const_str
from sa import roles

D = roles.DISPATCHER

prop_info(
    'C04',
    'Decided: R1 on every path to the driver call the gates module-exists -> exported-name lookup -> accessible-exists '
    '-> constant refusal -> readonly refusal -> import_value -> validate(previous=cache) are passed in this order, '
    'each refusal raising the fitting SECoP error class; R2 the value handed to the driver (write method, command '
    'function) is the result of validate (flow-sensitive def-use); R3 exactly one driver call per request path; '
    'R4 the request loop maps SECoP errors to their class name and everything else to InternalError; R5 in the write '
    'wrapper validate -> check hooks -> driver -> re-validation of the read-back, and the value that is cached and '
    'announced is always a validated one; R6 wire names exist only for exported accessibles (single guarded writer).',
    assumptions=['validate itself is right (C01)'],
    not_decided='dynamic-limit arithmetic, histories that move the limits, payload accept/reject equality.')


def _driver_calls_setparam(f):
    """getattr(moduleobj, 'write_' + pname)(value), also through a local alias of the bound method"""
    res = []
    for c in calls_in(f.node):
        g = c.func
        if isinstance(g, ast.Name):
            al = [o for o in origins(g, f.node) if isinstance(o, ast.Call)]
            if len(al) == 1:
                g = al[0]
        if isinstance(g, ast.Call) and dotted(g.func) == 'getattr' and len(g.args) >= 2:
            a = g.args[1]
            pre = const_str(a.left) if isinstance(a, ast.BinOp) else (str(a.values[0].value) if isinstance(a, ast.JoinedStr) and a.values and isinstance(a.values[0], ast.Constant) else None)
            if pre == 'write_':
                res.append(c)
    return res


def _polarity(test):
    """(core expression source, refusing side) of a refusal test: leading `not`s are stripped, `X is not None` is read as the
    negation of `X is None`"""
    neg = False
    t = test
    while isinstance(t, ast.UnaryOp) and isinstance(t.op, ast.Not):
        neg = not neg
        t = t.operand
    s = src(t)
    if isinstance(t, ast.Compare) and len(t.ops) == 1 and isinstance(t.ops[0], ast.IsNot) and isinstance(t.comparators[0], ast.Constant) \
            and t.comparators[0].value is None:
        s = f'{src(t.left)} is None'
        neg = not neg
    return s, neg


def _refusal(ctx, f, cfg, target_ids, pred, excname, label, what, refuse_when=True):
    """a test of the refusing condition (either polarity) whose refusing side always raises <excname> and which lies on every
    path to the target nodes.  pred(core) recognises the condition in its canonical form (`X is None`, `X.readonly`);
    refuse_when=False means the request is refused when the canonical condition is FALSE (`X.constant is None` -> go on)"""
    found = None
    excs = {}
    for u in cfg.nodes:
        if isinstance(u.ast, ast.Raise) and u.ast.exc is not None:
            d = dotted(u.ast.exc.func if isinstance(u.ast.exc, ast.Call) else u.ast.exc)
            excs[u.id] = d
            # `raise errcls(...)` with the class picked into a local before (table driven lookup helper)
            if d and '.' not in d and not d[:1].isupper():
                cands = {dotted(o) for o in origins(ast.Name(id=d, ctx=ast.Load()), f.node)} - {None}
                if excname in cands:
                    excs[u.id] = excname
    for t in cfg.nodes:
        if t.kind != 'test' or isinstance(t.ast, ast.stmt):
            continue
        core, neg = _polarity(t.ast)
        if pred(core):
            # the fitting raise lies on one of the two sides (before the driver call): an if body, an else branch, or the
            # code after an if whose body returns.  A test with the raise on its refusing side is preferred
            near = cfg.reach([t.id], avoid=list(target_ids), exc=False)
            if any(excs.get(i) == excname for i in near):
                sd = 'T' if ((not neg) if refuse_when else neg) else 'F'
                first = [b for b, lab in cfg.succ[t.id] if lab == sd]
                onside = set(first) | cfg.reach(first, avoid=list(target_ids), exc=False) if first else set()
                if any(excs.get(i) == excname for i in onside) and side_never_completes(cfg, t.id, sd):
                    found = (t, neg)
                    break
                found = found or (t, neg)
    construct = f'{f.qualname}:{label}'
    if found is None:
        ctx.bad(construct, f.node, f'no `if {what}: raise {excname}` found: {label} is missing, the request is not refused '
                'with the fitting error class', f)
        return None
    t, neg = found
    tid = [t.id]
    n = t.ast
    refusing_true = (not neg) if refuse_when else neg       # truth value of the written test on which the request is refused
    side = 'T' if refusing_true else 'F'
    # the test lies on every path to the driver call - where an earlier refusal is collected in a flag (`refused = '...'` ...
    # `if refused is not None: raise`), on every path that the flag lets through
    dominates = all(cfg.dominates(tid, t) for t in target_ids) or not (set(target_ids) & reach_with_flags(cfg, [cfg.entry], avoid=tid))
    ok = dominates and all(side_never_completes(cfg, i, side) for i in tid)
    goes_on = all(set(target_ids) & (cfg.reach([i], labels={'F' if side == 'T' else 'T'}, avoid=[i]) | set()) for i in tid)
    raises_it = all(any(excs.get(j) == excname for j in cfg.reach([b for b, lab in cfg.succ[i] if lab == side], exc=False) | {b for b, lab in cfg.succ[i] if lab == side})
                    for i in tid)
    ok = ok and raises_it
    ctx.check(ok and goes_on, construct, n, f'`if {src(n)}`: the refusing side always raises, the driver call lies on the other side',
              f'`if {src(n)}`: ' + ('the test does not lie on every path to the driver call' if not dominates else
                                         f'the side on which `{what}` holds does not always raise (or the driver call is on that side): the request is '
                                         f'carried out although it has to be refused with {excname}, and refused when it is legitimate'), f)
    return tid


def _no_fallback_to_the_wire_name(ctx, f, lookups):
    """`accessiblename2attr.get(exportedname)`: a name that is not exported translates to None.  A default (`.get(name, name)`,
    `... or name`) makes an unexported attribute name translate to ITSELF - it is then found in module.parameters / commands"""
    for n in lookups:
        v = n.value
        bad = None
        for c in [x for x in ast.walk(v) if isinstance(x, ast.Call) and call_attr(x) == 'get' and 'accessiblename2attr' in src(x.func)]:
            dflt = c.args[1] if len(c.args) > 1 else kwarg(c, 'default')
            if dflt is not None and not (isinstance(dflt, ast.Constant) and not isinstance(dflt.value, str)):
                bad = c         # (a constant sentinel that is no string - None, True - can not be a key of parameters / commands)
        if isinstance(v, ast.BoolOp) and isinstance(v.op, ast.Or) and any(not (isinstance(x, ast.Constant) and x.value is None) for x in v.values[1:]):
            bad = v
        ctx.check(bad is None, f'{f.qualname}:no fall-back for names that are not exported', n, f'`{src(v)}`',
                  f'`{src(bad) if bad is not None else ""}` gives a name that is NOT in the table of exported names a translation after all (itself): an accessible '
                  'declared with export=False, the attribute name of a renamed parameter, any accessible of an unexported module can be read, changed and executed', f)


def lookups_done_elsewhere(m, f):
    """the module and the accessible are not looked up in f itself but by an object of a class of the dispatcher module that f
    constructs (`moduleobj, pname, pobj = _AddressedParameter(self.secnode, modulename, exportedname)`): the chain of refusals
    lives in that class and is not followed - the anchors of these rules are gone, nothing is decided"""
    if any(call_attr(c) == 'get_module' for c in calls_in(f.node)) or any('.modules' in src(x) for x in body_walk(f.node) if isinstance(x, ast.Subscript)):
        return
    for c in calls_in(f.node):
        q = m.resolve_name(f.module, c.func.id) if isinstance(c.func, ast.Name) else None
        if q in m.classes and m.classes[q].module is f.module:
            raise AnchorMissing(f'{f.qualname} has its module / accessible looked up by an object of class {q.rpartition(".")[2]}: that class is not followed')


@rule('C04.R1', min_instances=9)
def gates_in_order(ctx):
    """must-pass-through chain for change and do requests"""
    m = ctx.m
    f = m.method(D, '_setParameterValue', inherited=False)
    ctx.analysed(f)
    lookups_done_elsewhere(m, f)
    lookups_done_elsewhere(m, m.method(D, '_execute_command', inherited=False))
    cfg = CFG(f.node, m, f.module)
    drv = _driver_calls_setparam(f)
    if not drv:
        raise AnchorMissing("driver call getattr(moduleobj, 'write_' + pname)(...) not found in _setParameterValue")
    drv_ids = [i for c in drv for i in cfg.node_of(c)]
    chain = []
    chain.append(_refusal(ctx, f, cfg, drv_ids, lambda s: s.endswith(' is None') and 'module' in s, 'NoSuchModuleError', 'module-exists refusal', '<module> is None'))
    lookups = [n for n in body_walk(f.node) if isinstance(n, ast.Assign) and 'accessiblename2attr' in src(n.value)]
    ctx.check(bool(lookups) and all(cfg.dominates(cfg.ids(lookups[0]), t) for t in drv_ids), f'{f.qualname}:exported-name lookup', f.node,
              'the attribute name is looked up in accessiblename2attr (exported names only)',
              'the wire name is not translated through accessiblename2attr on every path: unexported accessibles become reachable', f)
    _no_fallback_to_the_wire_name(ctx, f, lookups)
    if lookups:
        chain.append(cfg.ids(lookups[0]))
        # the looked-up name is what is used for the parameter and the driver
        nm = src(lookups[0].targets[0])
        for c in drv:
            fsrc = ' '.join(src(o) for o in origins(c.func, f.node)) if isinstance(c.func, ast.Name) else src(c.func)
            fsrc += ' ' + src(resolved(c.func, f.node))        # through once-bound aliases (`pname = attrname`)
            aliases = {nm}
            for _ in range(3):
                aliases |= {x.targets[0].id for x in body_walk(f.node) if isinstance(x, ast.Assign) and len(x.targets) == 1 and isinstance(x.targets[0], ast.Name)
                            and isinstance(x.value, ast.Name) and x.value.id in aliases}
            ctx.check(any(a in names_in(c.func) for a in aliases) or nm in fsrc, f'{f.qualname}:driver addressed by looked-up name', c, f'write_ + {nm}',
                      f'the driver method name is not built from the looked-up attribute name `{nm}`', f)
    chain.append(_refusal(ctx, f, cfg, drv_ids, lambda s: s.endswith(' is None') and 'module' not in s, 'NoSuchParameterError', 'parameter-exists refusal', '<pobj> is None'))
    chain.append(_refusal(ctx, f, cfg, drv_ids, lambda s: s.endswith('.constant is None'), 'ReadOnlyError', 'constant refusal', '<pobj>.constant is not None', refuse_when=False))
    chain.append(_refusal(ctx, f, cfg, drv_ids, lambda s: s.endswith('.readonly'), 'ReadOnlyError', 'readonly refusal', '<pobj>.readonly'))
    imp = [i for c in func_calls(f.node, attr='import_value') for i in cfg.node_of(c)]
    val = [i for c in func_calls(f.node, attr='validate') for i in cfg.node_of(c)]
    ctx.check(bool(imp) and all(cfg.dominates(imp, t) for t in drv_ids), f'{f.qualname}:import_value before driver', f.node,
              'import_value dominates the driver call', 'the payload is not imported (transport -> internal) on every path to the driver', f)
    ctx.check(bool(val) and all(cfg.dominates(val, t) for t in drv_ids), f'{f.qualname}:validate before driver', f.node,
              'validate dominates the driver call', 'the payload is not validated on every path to the driver', f)
    chain += [imp, val]
    # order of the chain
    chain = [c for c in chain if c]
    inorder = all(all(cfg.dominates(a, x) or x not in reach_with_flags(cfg, [cfg.entry], avoid=a) for x in b) for a, b in zip(chain, chain[1:]))
    ctx.check(inorder, f'{f.qualname}:gate order', f.node, 'each gate dominates the next one',
              'the gates are not passed in the order exists -> lookup -> exists -> constant -> readonly -> import -> validate', f)
    # validate uses the cache value as previous
    for c in func_calls(f.node, attr='validate'):
        p = kwarg(c, 'previous') or (c.args[1] if len(c.args) > 1 else None)
        ctx.check(p is not None and src(p).endswith('.value'), f'{f.qualname}:validate(previous=cache value)', c,
                  'previous= is the cached value', 'validate is called without previous=<cached value>: a partial struct '
                  'is not merged into the current value', f)
    # command path
    g = m.method(D, '_execute_command', inherited=False)
    ctx.analysed(g)
    cfgg = CFG(g.node, m, g.module)
    do_calls = func_calls(g.node, attr='do')
    if not do_calls:
        raise AnchorMissing('cobj.do(...) not found in _execute_command')
    do_ids = [i for c in do_calls for i in cfgg.node_of(c)]
    _refusal(ctx, g, cfgg, do_ids, lambda s: s.endswith(' is None') and 'module' in s, 'NoSuchModuleError', 'module-exists refusal', '<module> is None')
    _refusal(ctx, g, cfgg, do_ids, lambda s: s.endswith(' is None') and 'module' not in s, 'NoSuchCommandError', 'command-exists refusal', '<cobj> is None')
    lk = [n for n in body_walk(g.node) if isinstance(n, ast.Assign) and 'accessiblename2attr' in src(n.value)]
    ctx.check(bool(lk) and all(cfgg.dominates(cfgg.ids(lk[0]), t) for t in do_ids), f'{g.qualname}:exported-name lookup', g.node,
              'command name is looked up in accessiblename2attr', 'command name is not translated through accessiblename2attr', g)
    cl = [n for n in body_walk(g.node) if isinstance(n, ast.Assign) and '.commands' in src(n.value)]
    ctx.check(bool(cl), f'{g.qualname}:lookup among commands only', g.node, 'cobj comes from moduleobj.commands',
              'the command object is not taken from moduleobj.commands (a parameter could be executed)', g)


def _command_do(m):
    return m.method(roles.COMMAND, 'do', inherited=False)


def _not_wrapped(f, fname):
    """the bound command function is only ever called by its name or handed to a method of the command: once it is stored
    under another name or wrapped (`call = partial(func, *checked)`), the calls can not be told from here"""
    for n in body_walk(f.node, into_lambda=True):
        if isinstance(n, ast.Name) and n.id == fname and isinstance(n.ctx, ast.Load):
            par = getattr(n, 'parent', None)
            if isinstance(par, ast.Call) and par.func is n:
                continue
            if isinstance(par, ast.Call) and (dotted(par.func) or '').rpartition('.')[2] != 'partial':
                continue        # handed on as an argument: followed by _func_escapes / _command_units
            if not isinstance(par, (ast.Assign, ast.Call, ast.IfExp, ast.NamedExpr)):
                continue
            raise AnchorMissing(f'the bound command function `{fname}` is re-bound or wrapped in {f.qualname} (`{src(enclosing_stmt(n))[:80]}`): '
                                'its calls are not followed')


def _func_calls_in_do(f):
    """calls of the bound command function: func(...)"""
    fname = None
    for n in body_walk(f.node):
        if isinstance(n, ast.Assign) and isinstance(n.targets[0], ast.Name) and '__get__' in src(n.value):
            fname = n.targets[0].id
    if fname is None:
        raise AnchorMissing('bound command function (self.__get__(module_obj)) not found in Command.do')
    _not_wrapped(f, fname)
    return [c for c in calls_in(f.node) if isinstance(c.func, ast.Name) and c.func.id == fname]


def _func_escapes(fnode, fname):
    """calls that hand the bound command function on as an argument (`self._call_with(func, argument)`)"""
    return [c for c in calls_in(fnode) if any(isinstance(a, ast.Name) and a.id == fname for a in list(c.args) + [k.value for k in c.keywords])]


def _command_units(m):
    """Command.do and the helper methods of Command the bound function is handed to: [(FuncInfo, local name of the function)]"""
    g = _command_do(m)
    fname = None
    for n in body_walk(g.node):
        if isinstance(n, ast.Assign) and isinstance(n.targets[0], ast.Name) and '__get__' in src(n.value):
            fname = n.targets[0].id
    if fname is None:
        raise AnchorMissing('bound command function (self.__get__(module_obj)) not found in Command.do')
    units, todo, seen = [], [(g, fname)], set()
    while todo:
        f, name = todo.pop()
        if f.qualname in seen:
            continue
        seen.add(f.qualname)
        _not_wrapped(f, name)
        units.append((f, name))
        for c in _func_escapes(f.node, name):
            if isinstance(c.func, ast.Attribute) and dotted(c.func.value) == 'self':
                h = m.method(roles.COMMAND, c.func.attr)
                if h is not None:
                    params = [a.arg for a in h.node.args.args][1:]
                    for i, a in enumerate(c.args):
                        if isinstance(a, ast.Name) and a.id == name and i < len(params):
                            todo.append((h, params[i]))
    return units


def _validated(rd, use_node, expr, depth=6):
    """every value `expr` may denote at use_node is the result of a validate(...) call, an empty container / a constant, or
    a tuple / list / dict built from such values (`args, kwds = (argument,), {}`)"""
    def every(vals):
        vals = list(vals)
        return False if any(v is False for v in vals) else (None if any(v is None for v in vals) else True)
    if depth == 0:
        return False
    if isinstance(expr, ast.Starred):
        expr = expr.value
    if isinstance(expr, ast.Name):
        defs = rd.at(use_node, expr.id)
        if not defs:
            return False
        res = []
        for v, st, how in defs:
            if how == 'assign' and v is not None:
                res.append(_validated(rd, st, v, depth - 1))
            elif how == 'unpack' and isinstance(v, ast.Call) and isinstance(v.func, ast.Attribute) and dotted(v.func.value) == 'self':
                res.append(None)        # what a helper method of the command hands back: not decided here
            else:
                res.append(False)
        return every(res)
    if isinstance(expr, ast.IfExp):
        return every([_validated(rd, use_node, expr.body, depth), _validated(rd, use_node, expr.orelse, depth)])
    if isinstance(expr, (ast.Tuple, ast.List)):
        return every(_validated(rd, use_node, e, depth) for e in expr.elts)
    if isinstance(expr, ast.Dict):
        return False if any(k is None for k in expr.keys) else every(_validated(rd, use_node, v, depth) for v in expr.values)
    if isinstance(expr, ast.Constant):
        return True
    if isinstance(expr, ast.Call) and isinstance(expr.func, ast.Attribute) and dotted(expr.func.value) == 'self' and expr.func.attr.startswith('_'):
        return None
    return is_method_call(expr, {'validate'}, rd, use_node)


@rule('C04.R2', min_instances=3)
def validated_value_is_used(ctx):
    """flow-sensitive: the argument of the driver call / command function is the result of `.validate(`"""
    m = ctx.m
    f = m.method(D, '_setParameterValue', inherited=False)
    ctx.analysed(f)
    cfg = CFG(f.node, m, f.module)
    rd = ReachingDefs(cfg, f.node)
    for c in _driver_calls_setparam(f):
        a = c.args[0] if c.args else None
        o = rd.origins_at(c, a) if a is not None else []
        ok = bool(o) and all(is_method_call(x, {'validate'}, rd, c) for x in o)
        ctx.check(ok, f'{f.qualname}:driver gets the validated value', c, 'argument = result of validate(...)',
                  f'the write method is called with `{src(a) if a is not None else ""}` which is '
                  f'{[src(x) for x in o]}, not the result of validate: an unvalidated / un-merged value reaches the driver', f)
    g = _command_do(m)
    ctx.analysed(g)
    cfgg = CFG(g.node, m, g.module)
    rdg = ReachingDefs(cfgg, g.node)
    for g, fname in _command_units(m):
        ctx.analysed(g)
        cfgg = CFG(g.node, m, g.module)
        rdg = ReachingDefs(cfgg, g.node)
        own = {a.arg for a in g.node.args.args}
        for c in [c for c in calls_in(g.node) if isinstance(c.func, ast.Name) and c.func.id == fname] + _func_escapes(g.node, fname):
            handed = [a for a in list(c.args) + [k.value for k in c.keywords] if not (isinstance(a, ast.Name) and a.id in (fname, 'self'))]
            if not handed:
                continue
            direct = isinstance(c.func, ast.Name) and c.func.id == fname
            if not direct and isinstance(c.func, ast.Attribute) and dotted(c.func.value) == 'self' and m.method(roles.COMMAND, c.func.attr) is not None:
                continue        # handed to a helper of the command: judged there
            verdicts = [_validated(rdg, c, a) for a in handed]
            ok = all(v is True for v in verdicts)
            o = [x for a in handed for x in rdg.origins_at(c, a.value if isinstance(a, ast.Starred) else a)]
            if not ok and not any(v is False for v in verdicts):
                ctx.undecided(f'{g.qualname}:command function gets the validated argument', c,
                              'what is handed over comes out of a helper method of the command that these rules do not follow', g)
                continue
            ctx.check(ok, f'{g.qualname}:command function gets the validated argument', c,
                      'argument = result of validate(...)',
                      f'the command function is called with {[src(x) for x in o]}: the merely imported value, not the '
                      'result of validate (validate result discarded) - e.g. 10.0000001 reaches a FloatRange(0, 10) command unclamped', g)
    ww = roles.write_wrapper(m)
    ctx.analysed(ww)
    cfgw = CFG(ww.node, m, ww.module)
    rdw = ReachingDefs(cfgw, ww.node)
    for c in roles.driver_calls_in_wrapper(ww):
        a = c.args[1] if len(c.args) > 1 else None
        o = rdw.origins_at(c, a) if a is not None else []
        ok = bool(o) and all(is_method_call(x, {'validate'}, rdw, c) for x in o)
        ctx.check(ok, f'{ww.qualname}:driver gets the validated value', c, 'argument = result of validate(...)',
                  f'the driver write function is called with {[src(x) for x in o]}, not the validated value', ww)


@rule('C04.R3', min_instances=2)
def exactly_one_driver_call(ctx):
    """every normal path performs exactly one driver call"""
    m = ctx.m
    f = m.method(D, '_setParameterValue', inherited=False)
    cfg = CFG(f.node, m, f.module)
    ids = {i for c in _driver_calls_setparam(f) for i in cfg.node_of(c)}
    ok1 = cfg.all_paths_pass([cfg.entry], [cfg.exit], ids, exc=False)
    ok2 = not any(cfg.reach([i]) & ids for i in ids)
    ctx.check(ok1 and ok2, f'{f.qualname}:exactly one driver call', f.node, 'one write call on every normal path',
              'a normal path performs no or more than one driver write', f)
    g = _command_do(m)
    cfgg = CFG(g.node, m, g.module)
    ids = {i for c in _func_calls_in_do(g) + _func_escapes(g.node, _command_units(m)[0][1]) for i in cfgg.node_of(c)}
    ok1 = cfgg.all_paths_pass([cfgg.entry], [cfgg.exit], ids, exc=False)
    ok2 = not any(cfgg.reach([i]) & ids for i in ids)
    ctx.check(ok1 and ok2, f'{g.qualname}:exactly one command call', g.node, 'one function call on every normal path',
              'a normal path calls the command function not exactly once', g)
    # argument presence check (decided by C04.R2b's walk with the two conditions fixed)
    p = g.node.args.args[2].arg if len(g.node.args.args) > 2 else 'argument'
    refused = all(not (ids & reach_under(cfgg, g.node, {'self.argument': has, f'{p} is None': none}, exc=False)) for has, none in ((True, True), (False, False)))
    tested_here = any(t.kind == 'test' and not isinstance(t.ast, ast.stmt) and 'self.argument' in src(resolved(t.ast, g.node)) for t in cfgg.nodes)
    delegated = [c for c in calls_in(g.node) if isinstance(c.func, ast.Attribute) and dotted(c.func.value) == 'self' and any(isinstance(a, ast.Name) and a.id == p for a in c.args)]
    if not refused and not tested_here and delegated:
        ctx.undecided(f'{g.qualname}:argument presence checked', delegated[0], f'the payload is handed to `{src(delegated[0].func)}`: decided there, not in do()', g)
    else:
        ctx.check(refused, f'{g.qualname}:argument presence checked', g.node, 'missing and superfluous arguments are refused',
                  'a missing or superfluous command argument is not refused', g)


@rule('C04.R4', min_instances=2)
def error_mapping(ctx):
    """RequestHandler.handle: SECoPError -> err.name, anything else -> InternalError"""
    m = ctx.m
    h = m.method(roles.HANDLER, 'handle', inherited=False)
    ctx.analysed(h)
    disp = [c for c in calls_in(h.node) if call_attr(c) == 'handle_request']
    if not disp:
        raise AnchorMissing('handle_request call not found')
    for t, part in enclosing_tries(disp[0]):
        if part != 'body':
            continue
        for hd in t.handlers:
            lists = [n for st in hd.body for n in walk_local(st) if isinstance(n, ast.List) and len(n.elts) == 3]
            if not lists:
                # the report may be built in two steps: `report = [<class name>, <text>]` + `report.append({...})`
                lists = [n for st in hd.body for n in walk_local(st) if isinstance(n, ast.List) and len(n.elts) == 2 and
                         isinstance(getattr(n, 'parent', None), ast.Assign)]
            first = src(lists[0].elts[0]) if lists else None
            if hd.type is not None and dotted(hd.type) == 'SECoPError':
                ctx.check(first == f'{hd.name}.name', f'{h.qualname}:SECoPError mapped to its class name', hd,
                          'error report carries err.name', f'error report starts with `{first}` instead of the SECoP class name of the exception', h)
            elif handler_catches_all(hd) and lists and isinstance(lists[0].elts[0], ast.IfExp):
                # one handler for both kinds, the class name chosen by a condition (`'InternalError' if internal else err.name`)
                e = lists[0].elts[0]
                leaves = {src(e.body), src(e.orelse)}
                if leaves == {"'InternalError'", f'{hd.name}.name'}:
                    ctx.undecided(f'{h.qualname}:other exceptions mapped to InternalError', hd, f'`{src(e)}`: the class name is chosen by a condition that is not followed', h)
                else:
                    ctx.bad(f'{h.qualname}:other exceptions mapped to InternalError', hd, f'error report starts with `{src(e)}`', h)
            elif handler_catches_all(hd):
                ctx.check(first == "'InternalError'", f'{h.qualname}:other exceptions mapped to InternalError', hd,
                          'error report carries InternalError', f'error report starts with `{first}`', h)
        break
    # order: the SECoPError handler precedes the catch-all
    for t, part in enclosing_tries(disp[0]):
        if part == 'body':
            names = [dotted(hd.type) if hd.type is not None else None for hd in t.handlers]
            if 'SECoPError' in names and ('Exception' in names or None in names):
                i = names.index('SECoPError')
                j = names.index('Exception') if 'Exception' in names else names.index(None)
                ctx.check(i < j, f'{h.qualname}:specific handler first', t, 'SECoPError handler precedes the catch-all',
                          'the catch-all handler precedes the SECoPError handler: every SECoP error is reported as InternalError', h)
            break


@rule('C04.R5', min_instances=4)
def wrapper_order(ctx):
    """write wrapper: validate -> all check hooks -> driver -> re-validate; the announced value is a validated one"""
    m = ctx.m
    ww = roles.write_wrapper(m)
    ctx.analysed(ww)
    cfg = CFG(ww.node, m, ww.module)
    rd = ReachingDefs(cfg, ww.node)
    drv = roles.driver_calls_in_wrapper(ww)
    if not drv:
        raise AnchorMissing('driver call in write wrapper not found')
    drv_ids = [i for c in drv for i in cfg.node_of(c)]
    vals = [c for c in calls_in(ww.node) if is_method_call(c, {'validate'}, rd, c)]
    if not vals:
        ctx.bad(f'{ww.qualname}:validate before driver', ww.node, 'the write wrapper never validates', ww)
        return
    first_val = [i for c in vals for i in cfg.node_of(c) if not (set(drv_ids) & cfg.reach_from_entry(avoid=[i]) and False)]
    pre = [i for c in vals for i in cfg.node_of(c) if not any(cfg.reachable(d, i) for d in drv_ids)]
    ctx.check(bool(pre) and all(cfg.dominates(pre, d) for d in drv_ids), f'{ww.qualname}:validate before driver', ww.node,
              'validate dominates the driver call', 'the driver can be called with a value that was not validated first', ww)
    # check hooks: loop over the check functions parameter, each called; dominates driver
    loops = [n for n in body_walk(ww.node) if isinstance(n, ast.For) and isinstance(n.iter, ast.Name)
             and n.iter.id in {a.arg for a in ww.node.args.args}]
    chk = [l for l in loops if any(isinstance(c.func, ast.Name) and c.func.id == src(l.target) for c in calls_in(l))]
    if not chk:
        ctx.bad(f'{ww.qualname}:check hooks before driver', ww.node, 'no loop calling the check_<param> functions found: '
                'dynamic limits and check hooks are not enforced before the driver is called', ww)
    for l in chk:
        lid = cfg.ids(l)
        ctx.check(all(cfg.dominates(lid, d) for d in drv_ids), f'{ww.qualname}:check hooks before driver', l,
                  'the check loop dominates the driver call', 'the driver can be called before / without the check_<param> hooks', ww)
        ctx.check(bool(pre) and all(cfg.dominates(pre, i) for i in lid), f'{ww.qualname}:validate before check hooks', l,
                  'validate dominates the check loop', 'check hooks run on a value that was not validated', ww)
    # the driver's return value is tested by identity (None / Done), never by truthiness
    retvars = {t.id for n in body_walk(ww.node) if isinstance(n, ast.Assign) and any(n.value is d for d in drv) for t in n.targets if isinstance(t, ast.Name)}
    for n in body_walk(ww.node):
        if isinstance(n, (ast.If, ast.IfExp)):
            for sub in ast.walk(n.test):
                if isinstance(sub, ast.Name) and sub.id in retvars:
                    par = sub.parent
                    ident = isinstance(par, ast.Compare) and all(isinstance(o, (ast.Is, ast.IsNot)) for o in par.ops)
                    ctx.check(ident, f'{ww.qualname}:driver return value tested by identity', n, f'`{src(n.test)}`',
                              f'`{src(n.test)}` tests the value returned by the write method by truthiness: a falsy return (0, 0.0, False, \'\', an empty '
                              'array - e.g. after clamping or an interlock) is treated as "no return value" and the requested value is cached and '
                              'announced instead of what the driver set', ww)
    # announced value provenance
    funnel = roles.cache_funnel(m)
    for c in func_calls(ww.node, attr=funnel.name):
        in_handler = any(part in ('handler', 'finalbody') for t, part in enclosing_tries(c))
        ctx.check(not in_handler, f'{ww.qualname}:announce only after a successful write', c, 'the funnel call is not in a handler / finally',
                  'the write wrapper announces from a handler or finally block: a refused or failed write changes the cache and emits an update', ww)
        a = c.args[1] if len(c.args) > 1 else kwarg(c, 'value')
        if a is None:
            ctx.undecided(f'{ww.qualname}:announced value is validated', c, 'no value argument', ww)
            continue
        vflag = kwarg(c, 'validate')
        if not (isinstance(vflag, ast.Constant) and vflag.value is False):
            ctx.ok(f'{ww.qualname}:announced value is validated', c, 'the funnel validates itself (validate=True)', ww)
            continue
        o = rd.origins_at(c, a)
        bad = [x for x in o if not is_method_call(x, {'validate'}, rd, c)]
        ctx.check(not bad, f'{ww.qualname}:announced value is validated', c,
                  'every value reaching announceUpdate(validate=False) is a result of validate(...)',
                  f'announceUpdate(..., validate=False) can receive {[src(x) for x in bad]}: when the driver write method '
                  'returns None, the raw value offered by the caller is cached and announced instead of the validated '
                  '(clamped / rounded / converted) one - e.g. self.write_x(10.0000001) on FloatRange(0, 10) caches 10.0000001, '
                  'self.write_n(3.0) on an IntRange caches the float', ww)


@rule('C04.R6', min_instances=1)
def wire_names_only_for_exported(ctx):
    """accessiblename2attr has one writer, guarded by the export truthiness of the accessible, keyed by .export"""
    m = ctx.m
    writers = []
    for q, fi in m.functions.items():
        if not fi.module.name.startswith('frappy.') or fi.module.name.startswith('frappy.gui'):
            continue
        for n in body_walk(fi.node):
            if isinstance(n, ast.Subscript) and isinstance(n.ctx, ast.Store) and src(n.value).endswith('accessiblename2attr'):
                writers.append((fi, n))
    if not writers:
        raise AnchorMissing('no store into accessiblename2attr found')
    for fi, n in writers:
        ctx.analysed(fi)
        guard = [a for a in ancestors(n) if isinstance(a, ast.If) and src(resolved(a.test, fi.node)).endswith('.export')]
        keyed = src(resolved(n.slice, fi.node)).endswith('.export')
        same = bool(guard) and src(resolved(guard[0].test, fi.node)) == src(resolved(n.slice, fi.node))
        ok = fi.qualname == 'frappy.modulebase.Module._add_accessible' and keyed and same
        ctx.check(ok, f'{fi.qualname}:store accessiblename2attr', n, 'single writer, guarded by and keyed by accessible.export',
                  'a wire name is registered without the export guard (or by another writer / under another key): '
                  'an unexported accessible becomes addressable', fi)


@rule('C04.R7', min_instances=3)
def automatic_limit_checks(ctx):
    """shared with C18.R2: the automatic check_<p> for <p>_min/_max/_limits is generated and collected for the whole MRO"""
    from sa.rules import c18
    c18.automatic_limit_checks(ctx)


@rule('C04.R7b', min_instances=1)
def limit_check_installed_whatever_a_parent_defines(ctx):
    """shared with C18.R2c: a request has to satisfy the module's CURRENT dynamic limits - the automatic limit check is installed
    unless the class itself defines the hook (an inherited hand-written check_<p> must not suppress it)"""
    from sa.rules import c18
    c18.limit_check_is_installed_whatever_a_parent_defines(ctx)


@rule('C04.R8', min_instances=1)
def value_slots_tested_by_identity(ctx):
    """shared with C06.R7"""
    from sa.rules import common
    common.truthiness_on_value_slots(ctx, {'frappy.protocol.dispatcher', 'frappy.modulebase', 'frappy.params'})


@rule('C04.R9', min_instances=3)
def nan_payload_is_refused(ctx):
    """shared with C01.R9 / C01.R10: json.loads accepts the token NaN, so a change / do payload can carry one; the range test
    of validate() must be in the accepting form (a NaN fails every comparison) and the conversion must hand the NaN
    through - otherwise the driver is called with nan"""
    from sa.rules import c01
    c01.range_test_is_nan_safe(ctx)
    c01.nan_is_never_turned_into_a_number(ctx)
    c01.length_is_measured_on_the_value(ctx)     # a payload is valid for the described datainfo: lengths count the value itself
    c01.declared_limits_enforced(ctx)            # ... and every declared limit is compared with a refusal reachable
    c01.tolerance_branch_clamps(ctx)             # ... and what passes within the resolution band is clamped into the limits


@rule('C04.R2b', min_instances=3)
def command_argument_presence_is_enforced(ctx):
    """Command.do: a command with an argument type refuses a request without data, a command without one refuses a request
    with data (WrongTypeError), and the function is called in the two legitimate situations.  Decided by walking the method
    four times with the two conditions fixed (`self.argument` set or not, `<argument> is None` or not): tests these decide
    are followed on one side only, everything else on both - whatever the tests look like (nested, guard clauses, negated)"""
    m = ctx.m
    f = m.method(roles.COMMAND, 'do', inherited=False)
    ctx.analysed(f)
    cfg = CFG(f.node, m, f.module)
    p = f.node.args.args[2].arg if len(f.node.args.args) > 2 else 'argument'
    fname = _command_units(m)[0][1]
    calls = _func_calls_in_do(f)
    escapes = _func_escapes(f.node, fname)
    if not calls and not escapes:
        raise AnchorMissing('call of the bound command function not found in Command.do')
    mentions = [t for t in cfg.nodes if t.kind == 'test' and not isinstance(t.ast, ast.stmt) and 'self.argument' in src(resolved(t.ast, f.node))]
    if not mentions:
        delegated = [c for c in calls_in(f.node) if isinstance(c.func, ast.Attribute) and dotted(c.func.value) == 'self' and
                     any(isinstance(a, ast.Name) and a.id == p for a in c.args)]
        if delegated:
            raise AnchorMissing(f'the payload is handed to `{src(delegated[0].func)}` and Command.do itself does not test self.argument: the presence '
                                'check is not decided in this form')
        raise AnchorMissing('test of self.argument not found in Command.do', violation=f'{f.qualname}:missing argument is refused')
    ids = {i for c in calls + escapes for i in cfg.node_of(c)}
    for has, none, key, good, bad in (
            (True, True, 'missing argument is refused', False, 'a request without data for a command that needs an argument reaches the command function'),
            (False, False, 'superfluous argument is refused', False, 'a request with data (any data: 0, false, "", [] and {} are data) for a command '
                                                                     'without argument reaches the command function'),
            (True, False, 'command with argument is served', True, 'a request with data for a command that takes an argument never reaches the command function'),
            (False, True, 'command without argument is served', True, 'a request without data for a command without argument never reaches the command function')):
        env = {'self.argument': has, f'{p} is None': none}
        reached = reach_under(cfg, f.node, env, exc=False)
        hit = sorted(ids & reached)
        ctx.check(bool(hit) == good, f'{f.qualname}:{key}', cfg.nodes[hit[0]].ast if hit else f.node,
                  f'with self.argument {"set" if has else "not set"} and `{p}` {"None" if none else "not None"}: the call is '
                  f'{"reached" if good else "not reachable"}', bad, f)
        if good and hit:
            # what is handed over on that walk
            for c in calls:
                if not (set(cfg.node_of(c)) & reached):
                    continue
                takes = bool(c.args or c.keywords)
                if has and not takes:
                    ctx.bad(f'{f.qualname}:`{src(c)}` on the right side of the argument test', c,
                            f'`{src(c)}` is reached for a command that has an argument type: the function is called without the argument', f)
                elif not has and takes and not all(_may_be_empty(a, c, cfg, f) for a in list(c.args) + [k.value for k in c.keywords]):
                    ctx.bad(f'{f.qualname}:`{src(c)}` on the right side of the argument test', c,
                            f'`{src(c)}` is reached for a command without argument type and hands something over', f)
                else:
                    ctx.ok(f'{f.qualname}:`{src(c)}` on the right side of the argument test', c, 'called with arguments iff the command has an argument type', f)


def _may_be_empty(a, call, cfg, f):
    """an argument of the form *name / **name whose reaching definitions include an empty tuple / dict"""
    if isinstance(a, ast.Starred):
        a = a.value
    if not isinstance(a, ast.Name):
        return False
    rd = ReachingDefs(cfg, f.node)
    return any(isinstance(v, (ast.Tuple, ast.Dict, ast.List)) and not (getattr(v, 'elts', None) or getattr(v, 'keys', None)) for v, st, how in rd.at(call, a.id))


@rule('C04.R1c', min_instances=1)
def default_accessible_only_without_separator(ctx):
    """a specifier `<module>` addresses the default accessible (value / target), `<module>:<name>` addresses <name> - also when
    <name> is empty (`change mod: 5` has to be refused with NoSuch...).  Where the specifier is cut by partition(':'), the
    default is chosen by the presence of the separator, never by the truth value of the name part"""
    m = ctx.m
    n = 0
    for q, fi in sorted(m.functions.items()):
        if fi.module.name != 'frappy.protocol.dispatcher':
            continue
        for a in [x for x in body_walk(fi.node) if isinstance(x, ast.Assign) and isinstance(x.value, ast.Call) and call_attr(x.value) == 'partition'
                  and x.value.args and isinstance(x.value.args[0], ast.Constant) and x.value.args[0].value == ':'
                  and isinstance(x.targets[0], ast.Tuple) and len(x.targets[0].elts) == 3 and isinstance(x.targets[0].elts[2], ast.Name)]:
            n += 1
            ctx.analysed(fi)
            name = a.targets[0].elts[2].id
            from sa.rules.common import _in_test_position
            by_truth = [x for x in body_walk(fi.node) if
                        (isinstance(x, ast.BoolOp) and any(isinstance(v, ast.Name) and v.id == name for v in x.values[:-1])) or
                        (isinstance(x, (ast.If, ast.IfExp)) and any(isinstance(at, ast.Name) and at.id == name for at, tv in facts_on_side(x.test, True) + facts_on_side(x.test, False)))]
            key = f'{fi.qualname}:default accessible only for a specifier without separator'
            if by_truth:
                ctx.bad(key, by_truth[0], f'`{src(by_truth[0]).splitlines()[0]}` takes an EMPTY accessible name (`<module>:`) for a missing one: `change <module>: <v>` is '
                        'carried out on the default accessible (the driver is called, the cache changes, an update goes out) instead of being refused with NoSuchParameter', fi)
            else:
                ctx.ok(key, a, 'the name part is used as it is, the default depends on the separator', fi)
    if not n:
        ctx.ok('specifiers are cut by split / membership test', None, 'no partition(\':\') in the dispatcher')


@rule('C04.R6b', min_instances=1)
def wire_name_is_read_after_the_module_flag_was_applied(ctx):
    """Module._add_accessible: the exported name that guards and keys the registration in accessiblename2attr is READ only after
    `if not self.export: accessible.export = False` ran - a name taken into a local before that still registers the accessibles
    of a module that is not exported (the dispatcher itself never looks at Module.export for change / do)"""
    m = ctx.m
    aa = m.method(roles.MODULE, '_add_accessible', inherited=False)
    ctx.analysed(aa)
    cfg = CFG(aa.node, m, aa.module)
    clr = [n for t, v, n in attr_stores(aa.node) if t.attr == 'export' and isinstance(v, ast.Constant) and v.value is False]
    reg = [n for n in body_walk(aa.node) if isinstance(n, ast.Subscript) and isinstance(n.ctx, ast.Store) and 'accessiblename2attr' in src(n.value)]
    if not clr or not reg:
        raise AnchorMissing('`accessible.export = False` / the store into accessiblename2attr not found in _add_accessible')
    clr_ids = [i for c in clr for i in cfg.node_of(c)]
    for r in reg:
        names = {x.id for x in ast.walk(r.slice) if isinstance(x, ast.Name)}
        for a in ancestors(r):
            if isinstance(a, ast.If):
                names |= {x.id for x in ast.walk(a.test) if isinstance(x, ast.Name)}
        early = []
        for st in body_walk(aa.node):
            if isinstance(st, (ast.Assign, ast.NamedExpr)):
                tg = st.targets[0] if isinstance(st, ast.Assign) else st.target
                if isinstance(tg, ast.Name) and tg.id in names and any(isinstance(x, ast.Attribute) and x.attr == 'export' and dotted(x.value) != 'self'
                                                                          for x in ast.walk(st.value)):
                    # a read of <accessible>.export into a local that guards / keys the registration: may the clearing still follow it?
                    if cfg.reach(cfg.node_of(st)) & set(clr_ids):
                        early.append(st)
        ctx.check(not early, f'{aa.qualname}:wire name read after the module flag was applied', early[0] if early else r,
                  'every read of the exported name that feeds the registration comes after `accessible.export = False`',
                  f'`{src(early[0]) if early else ""}` takes the exported name before `if not self.export: accessible.export = False` runs: the '
                  'accessibles of a module that is not exported are still entered into accessiblename2attr and can be changed / executed by name', aa)


@rule('C04.R10', min_instances=1)
def a_limit_of_zero_is_a_limit(ctx):
    """Module.checkLimits (behind the generated check_<param> hooks, between validate and the driver): whether a limit parameter
    EXISTS is asked by identity / by the AttributeError of getattr - the current VALUE of `<p>_min` / `<p>_max` is never truth
    tested.  `if limit and value < limit` skips a limit that currently is 0: a change beyond it reaches write_<p>"""
    m = ctx.m
    cl = m.method(roles.MODULE, 'checkLimits', inherited=False)
    ctx.analysed(cl)
    lim = {st.targets[0].id for st in body_walk(cl.node) if isinstance(st, ast.Assign) and len(st.targets) == 1 and isinstance(st.targets[0], ast.Name)
           and isinstance(st.value, ast.Call) and dotted(st.value.func) == 'getattr' and len(st.value.args) >= 2
           and any(isinstance(x, ast.Constant) and isinstance(x.value, str) and x.value in ('_min', '_max') for x in ast.walk(st.value.args[1]))}
    for st in body_walk(cl.node):
        # conditional expressions `getattr(..) if present else default` bind a limit as well
        if isinstance(st, ast.Assign) and len(st.targets) == 1 and isinstance(st.targets[0], ast.Name) and isinstance(st.value, ast.IfExp) \
                and any(isinstance(c, ast.Call) and dotted(c.func) == 'getattr' for c in ast.walk(st.value)) \
                and any(isinstance(x, ast.Constant) and x.value in ('_min', '_max') for x in ast.walk(st.value)):
            lim.add(st.targets[0].id)
    for l in [x for x in body_walk(cl.node) if isinstance(x, ast.For) and isinstance(x.iter, (ast.Tuple, ast.List)) and isinstance(x.target, ast.Tuple)]:
        for i, t in enumerate(l.target.elts):
            if isinstance(t, ast.Name) and all(isinstance(e, ast.Tuple) and i < len(e.elts) and isinstance(e.elts[i], ast.Name) and e.elts[i].id in lim for e in l.iter.elts):
                lim.add(t.id)
    hits = []
    for x in body_walk(cl.node):
        tests = [x.test] if isinstance(x, (ast.If, ast.IfExp, ast.While)) else []
        for t in tests:
            atoms = [t]
            while any(isinstance(a, (ast.BoolOp, ast.UnaryOp)) for a in atoms):
                atoms = [y for a in atoms for y in (a.values if isinstance(a, ast.BoolOp) else [a.operand] if isinstance(a, ast.UnaryOp) and isinstance(a.op, ast.Not) else [a])
                         ] if any(isinstance(a, ast.BoolOp) or (isinstance(a, ast.UnaryOp) and isinstance(a.op, ast.Not)) for a in atoms) else atoms
                if not any(isinstance(a, ast.BoolOp) or (isinstance(a, ast.UnaryOp) and isinstance(a.op, ast.Not)) for a in atoms):
                    break
            hits += [(a, t) for a in atoms if isinstance(a, ast.Name) and a.id in lim]
    ctx.check(not hits, f'{cl.qualname}:limit values are not truth tested', hits[0][1] if hits else cl.node, f'the limit locals {sorted(lim) or "-"} are compared, never truth tested',
              f'`{src(hits[0][1]) if hits else ""}` asks for the truth value of `{hits[0][0].id if hits else ""}`: a limit parameter whose current value is 0 counts as absent, '
              'a value beyond it passes the check and is handed to the driver', cl)
