"""C02 - valid values survive the wire encoding and the text encoding unchanged"""
from sa.core import rule, prop_info
from sa.lib import *  # noqa: F401,F403
from sa.lib import func_calls, origins, local_assigns
from sa.model import AnchorMissing, kwarg
from sa.typestate import isinstance_facts
from sa import roles
from sa.rules import c03, c07, c12

DT = 'frappy.datatypes'
SECOP_CLASSES = ['FloatRange', 'IntRange', 'ScaledInteger', 'EnumType', 'BLOBType', 'StringType', 'TextType', 'BoolType',
                 'ArrayOf', 'TupleOf', 'StructOf']
CONTAINERS = ['ArrayOf', 'TupleOf', 'StructOf']
JSON_KIND = {'int': 'int', 'scaled': 'int', 'enum': 'int', 'double': 'float', 'string': 'str', 'blob': 'str',
             'array': 'list', 'tuple': 'list', 'struct': 'dict', 'bool': 'bool'}

prop_info(
    'C02',
    'Decided: R1 where export_value changes the representation kind of a value (bytes->str, float->int, tuple->list) '
    'import_value is overridden and returns the internal kind again; R2 in the container types every method of the '
    'codec / description family delegates to the same-named method of the member datatypes; R3 the inferred JSON '
    'kind of export_value equals the kind SECoP prescribes for the type name the class exports; R4 the wire encoder '
    'can not emit NaN/Infinity (shared with C07.R6); R5 every client write/command path sends the exported value '
    '(shared with C12.R6); R6 a class overriding to_string overrides from_string, and the containers propagate '
    'unit=False to their members so that the text stays literal_eval-able.',
    not_decided='equality of the round-tripped value, float text forms, quoting of strings (values).')


def _ret_kind(m, ci, meth, depth=0):
    """abstract kind of the value returned by ci.<meth>: int float str bool bytes list tuple dict enum unknown"""
    f = None
    for q in m.mro(ci.qualname):
        c = m.classes.get(q)
        if c and meth in c.methods:
            f = c.methods[meth]
            break
    if f is None or depth > 3:
        return 'unknown'
    kinds = set()
    for r in [n for n in body_walk(f.node) if isinstance(n, ast.Return) and n.value is not None]:
        kinds.add(_expr_kind(m, ci, f, r.value, depth))
    kinds.discard(None)
    if len(kinds) == 1:
        return kinds.pop()
    return 'unknown'


def _expr_kind(m, ci, f, e, depth):
    if isinstance(e, ast.Call):
        d = dotted(e.func)
        if d in ('float', 'clamp'):
            return 'float'
        if d == 'int':
            return 'int'
        if d in ('str',):
            return 'str'
        if d == 'bool':
            return 'bool'
        if d in ('tuple',):
            return 'tuple'
        if d in ('list',):
            return 'list'
        if d in ('dict', 'ImmutableDict'):
            return 'dict'
        if d in ('b64decode', 'b64encode', 'bytes'):
            return 'bytes'
        if d == 'self':
            return _ret_kind(m, ci, '__call__', depth + 1)
        if isinstance(e.func, ast.Attribute):
            if e.func.attr == 'decode':
                return 'str'
            if e.func.attr == 'encode':
                return 'bytes'
            if dotted(e.func.value) == 'self' and e.func.attr in ('validate', '__call__', 'import_value'):
                return _ret_kind(m, ci, e.func.attr, depth + 1)
            if isinstance(e.func.value, ast.Name) and e.func.value.id in ('TupleOf',) and e.func.attr == 'validate':
                return 'tuple'
        return 'unknown'
    if isinstance(e, ast.JoinedStr):
        return 'str'
    if isinstance(e, (ast.ListComp, ast.List)):
        return 'list'
    if isinstance(e, (ast.DictComp, ast.Dict)):
        return 'dict'
    if isinstance(e, ast.Tuple):
        return 'tuple'
    if isinstance(e, ast.BinOp) and isinstance(e.op, ast.Mult) and ('self.scale' in (src(e.left), src(e.right))):
        return 'float'
    if isinstance(e, ast.Subscript) and src(e.value) == 'self._enum':
        return 'enum'
    if isinstance(e, ast.Name):
        # returned parameter: kind from a dominating isinstance-or-raise guard, or from its assignments
        for n in body_walk(f.node):
            if isinstance(n, ast.If) and n.body and isinstance(n.body[0], ast.Raise):
                for es, kinds, isinst in isinstance_facts(n.test, False):
                    if es == e.id and isinst and len(kinds) == 1:
                        return {'bytes': 'bytes', 'str': 'str', 'dict': 'dict'}.get(kinds[0], 'unknown')
        ks = set()
        for v, st, how in local_assigns(f.node, e.id):
            if how == 'assign' and v is not None:
                ks.add(_expr_kind(m, ci, f, v, depth))
            elif how == 'aug' and isinstance(v, ast.Constant) and isinstance(v.value, float):
                ks.add('float')
        ks.discard(None)
        ks.discard('unknown') if len(ks) > 1 else None
        if len(ks) == 1:
            return ks.pop()
        return 'unknown'
    if isinstance(e, ast.Constant):
        return type(e.value).__name__ if e.value is not None else None
    return 'unknown'


def _cls(m, name):
    return m.cls(f'{DT}.{name}')


def _own_or_inherited_below_datatype(m, ci, meth):
    """is meth overridden somewhere below DataType in the MRO"""
    for q in m.mro(ci.qualname):
        if q == f'{DT}.DataType':
            return False
        c = m.classes.get(q)
        if c and meth in c.methods:
            return True
    return False


@rule('C02.R1', min_instances=8)
def export_import_pairing(ctx):
    """representation changing export_value needs an import_value that restores the internal kind"""
    m = ctx.m
    for name in SECOP_CLASSES:
        ci = _cls(m, name)
        ek = _ret_kind(m, ci, 'export_value')
        ck = _ret_kind(m, ci, '__call__')
        has_imp = _own_or_inherited_below_datatype(m, ci, 'import_value')
        has_exp = _own_or_inherited_below_datatype(m, ci, 'export_value')
        construct = f'{ci.qualname}:export/import pairing'
        if 'unknown' in (ek, ck) or ck == 'enum':
            ctx.undecided(construct, ci.node, f'kinds: export={ek} internal={ck} (inherited import_value = self(value))')
            continue
        if ek != ck:
            ik = _ret_kind(m, ci, 'import_value')
            ok = has_imp and (ik == ck or (ik == 'unknown' and False))
            ctx.check(ok, construct, ci.node, f'export {ck}->{ek}, import returns {ik}',
                      f'{name}.export_value turns the internal {ck} into {ek}, but import_value ' +
                      ('is not overridden' if not has_imp else f'returns {ik}') +
                      ': importing the exported value on the node or on a client does not give the value back')
        else:
            ctx.check(not has_imp or _ret_kind(m, ci, 'import_value') in (ck, 'unknown'), construct, ci.node,
                      f'export keeps kind {ck}', f'import_value returns {_ret_kind(m, ci, "import_value")} although values are {ck}')
        if has_imp and not has_exp:
            ctx.bad(construct + ' (import without export)', ci.node, f'{name} overrides import_value but not export_value')


def _member_vars(f):
    """names bound to member datatypes inside comprehensions / loops of the method, and the expressions
    that denote a member datatype directly"""
    names = set()
    for _round in range(2):       # a second round sees pairs built from names found in the first
      for n in ast.walk(f.node):
        if isinstance(n, (ast.comprehension, ast.For)):
            it, tgt = n.iter, n.target
            if isinstance(it, ast.Name) and isinstance(n, ast.For):
                it = resolved(it, f.node)           # `pairs = zip(self.members, ...)` ... `for ours, theirs in pairs:`
            if isinstance(it, (ast.List, ast.Tuple, ast.GeneratorExp, ast.ListComp)) and isinstance(tgt, ast.Tuple):
                # a display / comprehension of tuples: the positions that hold one of our member datatypes
                rows = it.elts if isinstance(it, (ast.List, ast.Tuple)) else [it.elt]
                for row in rows:
                    if isinstance(row, ast.Tuple) and len(row.elts) == len(tgt.elts):
                        for i, e in enumerate(row.elts):
                            if isinstance(tgt.elts[i], ast.Name) and (src(e) == 'self.members' or (isinstance(e, ast.Name) and e.id in names)):
                                names.add(tgt.elts[i].id)
            if isinstance(it, ast.Call) and dotted(it.func) == 'zip':
                for i, a in enumerate(it.args):
                    if src(a) == 'self.members' and isinstance(tgt, ast.Tuple) and i < len(tgt.elts) and isinstance(tgt.elts[i], ast.Name):
                        names.add(tgt.elts[i].id)
            elif src(it) in ('self.members', 'self.members.values()') and isinstance(tgt, ast.Name):
                names.add(tgt.id)
            elif src(it) in ('self.members.items()', 'list(self.members.items())') and isinstance(tgt, ast.Tuple) and len(tgt.elts) == 2 \
                    and isinstance(tgt.elts[1], ast.Name):
                names.add(tgt.elts[1].id)
    return names


def _is_member_expr(e, names):
    if isinstance(e, ast.Name):
        return e.id in names
    s = src(e)
    return s == 'self.members' or s.startswith('self.members[')


DELEGATING = ['export_value', 'import_value', 'validate', '__call__', 'format_value', 'set_main_unit', 'compatible', 'copy', 'export_datatype']


def _handed_to_helper(m, f, names, meth, _depth=0):
    """the member datatype(s) of a container are passed to a function of the module (positionally or by keyword) instead of
    being called in place: (True, helper) when the helper - or a function it passes them on to - calls .<meth> on something
    derived from what it was given, (False, helper) when no such call is found there, None when nothing is handed on"""
    res = None
    for c in calls_in(f.node, into_lambda=True):
        if not isinstance(c.func, ast.Name):
            continue
        g = m.functions.get(f'{f.module.name}.{c.func.id}')
        if g is None or g.cls is not None:
            continue
        given = [i for i, a in enumerate(c.args) if _is_member_expr(a, names)]
        kws = [k.arg for k in c.keywords if k.arg and _is_member_expr(k.value, names)]
        if not given and not kws:
            continue
        a = g.node.args
        pos = [x.arg for x in a.args]
        tainted = {pos[i] for i in given if i < len(pos)} | {k for k in kws if k in pos + [x.arg for x in a.kwonlyargs]}
        if a.kwarg and any(k not in pos for k in kws):
            tainted.add(a.kwarg.arg)
        if a.vararg and any(i >= len(pos) for i in given):
            tainted.add(a.vararg.arg)
        if _derived_call(m, g, tainted, meth, 0):
            return True, g.qualname
        res = (False, g.qualname)
    return res


def _derived_call(m, g, tainted, meth, depth):
    tainted = set(tainted)
    changed = True
    nodes = list(ast.walk(g.node))
    while changed:
        changed = False
        for n in nodes:
            pairs = []
            if isinstance(n, ast.Assign):
                pairs = [(t, n.value) for t in n.targets]
            elif isinstance(n, (ast.For, ast.comprehension)):
                pairs = [(n.target, n.iter)]
            elif isinstance(n, ast.NamedExpr):
                pairs = [(n.target, n.value)]
            for t, v in pairs:
                if any(isinstance(x, ast.Name) and x.id in tainted for x in ast.walk(v)):
                    for x in ast.walk(t):
                        if isinstance(x, ast.Name) and x.id not in tainted:
                            tainted.add(x.id)
                            changed = True
    for c in nodes:
        if not isinstance(c, ast.Call):
            continue
        if isinstance(c.func, ast.Attribute) and c.func.attr == meth and any(isinstance(x, ast.Name) and x.id in tainted for x in ast.walk(c.func.value)):
            return True
        if isinstance(c.func, ast.Name) and depth < 2:
            h = m.functions.get(f'{g.module.name}.{c.func.id}')
            if h is not None and h.cls is None and h is not g:
                pos = [x.arg for x in h.node.args.args]
                t2 = {pos[i] for i, a in enumerate(c.args) if i < len(pos) and any(isinstance(x, ast.Name) and x.id in tainted for x in ast.walk(a))}
                t2 |= {k.arg for k in c.keywords if k.arg in pos and any(isinstance(x, ast.Name) and x.id in tainted for x in ast.walk(k.value))}
                if t2 and _derived_call(m, h, t2, meth, depth + 1):
                    return True
    return False


@rule('C02.R2', min_instances=20)
def container_delegation(ctx):
    """container method M delegates to member method M"""
    m = ctx.m
    for cname in CONTAINERS:
        ci = _cls(m, cname)
        for meth in DELEGATING:
            f = ci.methods.get(meth)
            if f is None:
                continue
            ctx.analysed(f)
            names = _member_vars(f)
            calls = []
            for c in ast.walk(f.node):
                if not isinstance(c, ast.Call):
                    continue
                if meth == 'copy' and isinstance(c.func, ast.Name) and c.args and _is_member_expr(c.args[0], names) and is_copier(m, f.module, c.func.id):
                    calls.append((c, 'copy'))       # copied_members(self.members): a function that copies what it is given
                if isinstance(c.func, ast.Attribute) and _is_member_expr(c.func.value, names):
                    calls.append((c, c.func.attr))
                elif _is_member_expr(c.func, names):
                    calls.append((c, '__call__'))
            # the member's method handed to a helper METHOD of the container as a value: `self._elementwise(self.members.export_value, value)`
            # (the bare member datatype handed over is its __call__)
            for c in ast.walk(f.node):
                if isinstance(c, ast.Call) and isinstance(c.func, ast.Attribute) and dotted(c.func.value) == 'self' and c.func.attr in ci.methods and c.func.attr.startswith('_'):
                    for a in c.args:
                        if isinstance(a, ast.Attribute) and _is_member_expr(a.value, names):
                            calls.append((c, a.attr))
                        elif _is_member_expr(a, names) and isinstance(a, ast.Attribute):
                            calls.append((c, '__call__'))
            # compatible(other.members...) etc: receiver must be OUR member
            calls = [(c, a) for c, a in calls if a not in ('items', 'values', 'keys', 'get')]
            construct = f'{f.qualname}:delegates to member.{meth}'
            if not calls:
                via = _handed_to_helper(m, f, names, meth)
                if via is not None:
                    if via[0]:
                        ctx.ok(construct, f.node, f'the member datatype(s) are handed to {via[1]}, which calls .{meth} on what it was given', f)
                    else:
                        ctx.undecided(construct, f.node, f'the member datatype(s) are handed to {via[1]}; no .{meth} call on them was found there', f)
                    continue
                ctx.bad(construct, f.node, f'{cname}.{meth} never calls its member datatype(s): nested values are not '
                        f'{"converted" if meth != "copy" else "copied"} by the member codec', f)
                continue
            if meth in ('export_value', 'import_value'):
                # every value-returning exit goes through the member codec: a fast path that returns the elements as they are
                # bypasses it for the member kinds whose transport form differs (scaled, blob, enum, nested containers)
                callnodes = {id(c) for c, a in calls}
                for r in [x for x in body_walk(f.node) if isinstance(x, ast.Return) and x.value is not None]:
                    exprs = [r.value] + (origins(r.value, f.node) if isinstance(r.value, ast.Name) else [])
                    if not isinstance(r.value, ast.Name):
                        # `return list(converted)`: what the names inside the returned expression were bound to
                        exprs += [o for x in ast.walk(r.value) if isinstance(x, ast.Name) and isinstance(x.ctx, ast.Load) for o in origins(x, f.node)]
                    through = any(id(x) in callnodes for e in exprs for x in ast.walk(e))
                    if not through and isinstance(r.value, ast.Name):
                        # a container built step by step: every element put into it went through the member call
                        nm = r.value.id
                        fills = [c.args[0] for c in calls_in(f.node) if call_attr(c) in ('append', 'extend', 'add') and isinstance(c.func.value, ast.Name)
                                 and c.func.value.id == nm and c.args]
                        fills += [x.value for x in body_walk(f.node) if isinstance(x, ast.Assign) and any(isinstance(t, ast.Subscript) and isinstance(t.value, ast.Name)
                                                                                                             and t.value.id == nm for t in x.targets)]
                        empties = all(isinstance(e, (ast.List, ast.Dict, ast.Tuple)) and not (getattr(e, 'elts', None) or getattr(e, 'keys', None)) or
                                      (isinstance(e, ast.Call) and dotted(e.func) in ('list', 'dict', 'OrderedDict') and not e.args) for e in exprs[1:])
                        through = bool(fills) and empties and all(any(id(x) in callnodes for x in ast.walk(e)) for e in fills)
                    ctx.check(through, f'{f.qualname}:every returned value went through member.{meth}', r, f'`{src(r.value)}` contains the member call',
                              f'`return {src(r.value)}` hands the elements on without member.{meth}: for members whose transport form differs from the internal one '
                              '(ScaledInteger is a HasUnit type too, blobs, enums) the node emits / accepts values in the wrong representation', f)
            wrong = [(c, a) for c, a in calls if a != meth]
            ctx.check(not wrong, construct, f.node, f'{len(calls)} member call(s), all .{meth}',
                      f'{cname}.{meth} calls `{src(wrong[0][0]) if wrong else ""}` on its member datatype: a nested blob / scaled / '
                      'enum value is handled by the wrong method (e.g. validated instead of imported, exported instead of formatted)', f)


@rule('C02.R3', min_instances=9)
def json_kind_table(ctx):
    """kind of export_value == JSON kind prescribed for the exported type name"""
    m = ctx.m
    for name in SECOP_CLASSES:
        ci = _cls(m, name)
        info = None
        for q in m.mro(ci.qualname):
            c = m.classes.get(q)
            if c:
                info = c03._type_name_and_keys(m, c)
                if info:
                    break
        if not info:
            ctx.undecided(f'{ci.qualname}:JSON kind', ci.node, 'no export_datatype with a literal type name')
            continue
        tname = info[0]
        want = JSON_KIND.get(tname)
        ek = _ret_kind(m, ci, 'export_value')
        construct = f'{ci.qualname}:JSON kind of export_value'
        if ek == 'unknown' or want is None:
            ctx.undecided(construct, ci.node, f'type {tname!r}: inferred kind {ek}')
            continue
        ctx.check(ek == want, construct, ci.node, f'type {tname!r}: exports {ek}',
                  f'{name} is described as {tname!r} (JSON {want}) but export_value returns {ek}: the emitted value is not '
                  'importable with the described datainfo')


@rule('C02.R4', min_instances=1)
def strict_json(ctx):
    """shared with C07.R6"""
    c07.strict_json.__wrapped__(ctx) if hasattr(c07.strict_json, '__wrapped__') else c07.strict_json(ctx)
    for o in ctx.out:
        o.rule = 'C02.R4'


@rule('C02.R5', min_instances=3)
def client_write_paths(ctx):
    """shared with C12.R6"""
    c12.write_paths_export(ctx)
    for o in ctx.out:
        o.rule = 'C02.R5'


@rule('C02.R7', min_instances=3)
def grid_quotient_is_rounded(ctx):
    """shared with C03.R5: scaled values are converted to grid indices by int(round(x / scale))"""
    c03.grid_quotient_is_rounded(ctx)


@rule('C02.R9', min_instances=8)
def rebuilt_datatype_has_the_same_numbers(ctx):
    """shared with C03.R1c: the client converts wire values with a datatype REBUILT from the description - scale, limits
    and resolutions in the datainfo are the node's property values themselves, not a formatted (shortened) rendering"""
    from sa.rules import c03
    c03.exported_property_values_are_exact(ctx)


@rule('C02.R10', min_instances=1)
def every_rebuilt_datatype_is_marked_as_client_side(ctx):
    """a datatype rebuilt from a description carries client=True at EVERY level (StructOf.check_type consults it: on the client
    optional struct members may be left out): the function through which the DATATYPES constructors are called - the one the
    container lambdas recurse into - sets the mark on what it built, on every path to its return.  A wrapper that marks only
    the outermost object makes a nested struct refuse a value its top-level twin accepts"""
    m = ctx.m
    mod = m.modules.get(DT)
    builders = []
    for q, f in sorted(m.functions.items()):
        if f.module is not mod or f.parent is not None or f.cls is not None:
            continue
        calls = [c for c in calls_in(f.node) if isinstance(c.func, ast.Subscript) and src(c.func.value) == 'DATATYPES']
        if calls:
            builders.append((f, calls))
    if not builders:
        raise AnchorMissing('no function calling DATATYPES[<type>](...) found in frappy.datatypes')
    for f, calls in builders:
        ctx.analysed(f)
        cfg = CFG(f.node, m, f.module)
        rd = ReachingDefs(cfg, f.node)
        for c in calls:
            st = next((a for a in ancestors(c) if isinstance(a, ast.stmt)), None)
            names = {t.id for t in st.targets if isinstance(t, ast.Name)} if isinstance(st, ast.Assign) else set()
            marks = [i for t, v, s2 in attr_stores(f.node) if t.attr == 'client' and isinstance(t.value, ast.Name) and t.value.id in names
                     and isinstance(v, ast.Constant) and v.value is True for i in cfg.node_of(s2)]
            rets = [i for r in body_walk(f.node) if isinstance(r, ast.Return) and r.value is not None and names_in(r.value) & names for i in cfg.ids(r)]
            direct = isinstance(st, ast.Return)
            ok = not direct and bool(marks) and bool(rets) and cfg.all_paths_pass(cfg.ids(st), rets, marks, exc=False)
            ctx.check(ok, f'{f.qualname}:what is built from a description is marked client=True', c, 'client = True on every path from the constructor call to the return',
                      f'`{src(c)}` builds a datatype that {f.name} returns without setting `.client = True` on it: the container constructors recurse through this '
                      'function, so nested datatypes (a struct inside an array, a command argument) are not marked - on the client a nested struct refuses a value '
                      'with an optional member left out, although its description allows it', f)


@rule('C02.R6', min_instances=5)
def text_form_pairing(ctx):
    """to_string override => from_string override; containers propagate unit=False"""
    m = ctx.m
    for q in [f'{DT}.DataType'] + m.subclasses(f'{DT}.DataType'):
        ci = m.classes[q]
        if ci.module.name != DT or q == f'{DT}.DataType':
            continue
        if 'to_string' in ci.methods:
            ctx.check(_own_or_inherited_below_datatype(m, ci, 'from_string'), f'{q}:to_string paired with from_string', ci.methods['to_string'].node,
                      'from_string is overridden too', f'{ci.name} overrides to_string but not from_string: the text offered to '
                      'the user is not accepted back', ci.methods['to_string'])
    # identity text form: when to_string returns the value unchanged, from_string must validate the text unchanged
    for q in m.subclasses(f'{DT}.DataType'):
        ci = m.classes[q]
        ts, fs = ci.methods.get('to_string'), ci.methods.get('from_string')
        if ci.module.name != DT or ts is None or fs is None:
            continue
        tp = ts.node.args.args[1].arg
        ident = all(isinstance(r.value, ast.Name) and r.value.id == tp for r in body_walk(ts.node) if isinstance(r, ast.Return))
        if not ident:
            continue
        fp = fs.node.args.args[1].arg
        for r in [r for r in body_walk(fs.node) if isinstance(r, ast.Return) and isinstance(r.value, ast.Call) and src(r.value.func) == 'self']:
            a = r.value.args[0] if r.value.args else None
            ctx.check(isinstance(a, ast.Name) and a.id == fp, f'{q}:identity text form is parsed unchanged', r, f'self({fp})',
                      f'to_string returns the string unchanged but from_string validates `{src(a) if a is not None else ""}`: a valid string with leading or '
                      'trailing white space does not map back to itself', fs)
    # the caller hands the text over as it is: the text form of a top-level string IS the string, white space included
    EDITS = {'strip', 'lstrip', 'rstrip', 'lower', 'upper', 'replace', 'split', 'splitlines', 'title', 'casefold', 'expandtabs'}
    n = 0
    for q, fi in sorted(m.functions.items()):
        if not fi.module.name.startswith('frappy.client') or fi.module.name.startswith('frappy.client.interactive'):
            continue
        for c in calls_in(fi.node):
            if call_attr(c) == 'from_string' and c.args and 'datatype' in src(c.func.value):
                n += 1
                ctx.analysed(fi)
                a = resolved(c.args[0], fi.node)
                ed = [x for x in ast.walk(a) if isinstance(x, ast.Call) and call_attr(x) in EDITS] + \
                     [x for x in ast.walk(a) if isinstance(x, ast.Subscript) and isinstance(x.slice, ast.Slice)]
                ctx.check(not ed, f'{fi.qualname}:text handed to from_string unchanged', c, f'from_string({src(c.args[0])})',
                          f'`{src(c)}` edits the text (`{src(ed[0]) if ed else ""}`) before the datatype parses it: for a string / text parameter the text form '
                          'is the value itself, so a value with leading or trailing white space (a text ending in a newline) is silently changed', fi)
    if not n:
        raise AnchorMissing('no datatype.from_string(...) call found in frappy.client')
    for cname in CONTAINERS:
        ci = _cls(m, cname)
        f = ci.methods.get('format_value')
        if f is None:
            ctx.bad(f'{ci.qualname}:format_value', ci.node, 'container without format_value')
            continue
        ctx.analysed(f)
        names = _member_vars(f)
        for c in ast.walk(f.node):
            if isinstance(c, ast.Call) and isinstance(c.func, ast.Attribute) and c.func.attr == 'format_value' and _is_member_expr(c.func.value, names):
                flag = c.args[1] if len(c.args) > 1 else kwarg(c, 'unit')
                construct = f'{f.qualname}:unit flag propagated ({src(flag) if flag is not None else "missing"})'
                if flag is None:
                    ctx.bad(construct, c, 'the member is formatted with the default unit=True: with unit=False the text contains units and is not literal_eval-able', f)
                elif isinstance(flag, ast.Name) and flag.id == 'unit':
                    ctx.ok(construct, c, 'unit passed through', f)
                elif isinstance(flag, ast.Constant) and flag.value is False:
                    ctx.ok(construct, c, 'False', f)
                elif isinstance(flag, ast.Constant) and flag.value is True:
                    in_false_branch = any(isinstance(a, ast.If) and src(a.test) == 'unit is False' and any(c is x for st in a.body for x in ast.walk(st)) for a in ancestors(c))
                    ctx.check(not in_false_branch, construct, c, 'True only outside the unit=False branch', 'True is passed in the unit=False branch', f)
                elif isinstance(flag, ast.Name):
                    fcfg = CFG(f.node, m, f.module)

                    def unit_false(a, tv):
                        if isinstance(a, ast.Name):
                            return a.id == 'unit' and not tv
                        if isinstance(a, ast.Compare) and len(a.ops) == 1 and isinstance(a.left, ast.Name) and a.left.id == 'unit' and isinstance(a.comparators[0], ast.Constant):
                            k = a.comparators[0].value
                            return (k is False and ((tv and isinstance(a.ops[0], (ast.Is, ast.Eq))) or (not tv and isinstance(a.ops[0], (ast.IsNot, ast.NotEq))))) or \
                                   (k is True and ((not tv and isinstance(a.ops[0], (ast.Is, ast.Eq))) or (tv and isinstance(a.ops[0], (ast.IsNot, ast.NotEq)))))
                        return False
                    false_side = sides_with_fact(fcfg, unit_false)
                    ok, unknown = True, False
                    for st in body_walk(f.node):
                        if not isinstance(st, ast.Assign) or len(st.targets) != 1:
                            continue
                        tg, v = st.targets[0], st.value
                        if isinstance(tg, ast.Tuple) and isinstance(v, ast.Tuple) and len(tg.elts) == len(v.elts):
                            pairs = list(zip(tg.elts, v.elts))
                        else:
                            pairs = [(tg, v)]
                        for t_, v_ in pairs:
                            if not (isinstance(t_, ast.Name) and t_.id == flag.id):
                                continue
                            if isinstance(v_, ast.Constant) and v_.value is False:
                                continue
                            if isinstance(v_, ast.Constant) and v_.value is True:
                                if set(fcfg.ids(st)) & false_side:
                                    ok = False
                                continue
                            if isinstance(v_, ast.Name) and v_.id == 'unit':
                                continue
                            unknown = True
                    if ok and unknown:
                        ctx.undecided(construct, c, f'`{flag.id}` is computed by an expression that is not followed', f)
                    else:
                        ctx.check(ok, construct, c, f'`{flag.id}` is False wherever unit is False',
                                  f'`{flag.id}` can be true although unit is False: the text form of the container contains units', f)
                else:
                    ctx.undecided(construct, c, 'flag expression not recognised', f)


@rule('C02.R8', min_instances=1)
def int_import_keeps_precision(ctx):
    """shared with C01.R3b: IntRange.__call__ (= its import_value) converts the offered value itself, not a float copy"""
    from sa.rules import c01
    c01.int_of_the_value_itself(ctx)


@rule('C02.R6c', min_instances=1)
def one_member_tuple_text_form(ctx):
    """TupleOf.format_value: the text of a one-member tuple needs a trailing comma to be a python tuple literal"""
    m = ctx.m
    f = m.method(f'{DT}.TupleOf', 'format_value', inherited=False)
    ctx.analysed(f)
    text = ' '.join(src(r.value, 600) for r in body_walk(f.node) if isinstance(r, ast.Return) and r.value is not None)
    ok = ("len(" in text and "== 1" in text and "','" in text) or 'repr(tuple' in text
    if "', '.join" not in text and 'repr(tuple' not in text:
        ctx.undecided(f'{f.qualname}:one-member tuple', f.node, 'format not recognised', f)
        return
    ctx.check(ok, f'{f.qualname}:one-member tuple has a trailing comma', f.node, 'a trailing comma is written when len(members) == 1',
              "a tuple with a single member is written as '(1)', which literal_eval reads as the int 1: from_string(to_string(v)) is refused", f)


def _enum_lookups(funcnode):
    """member look-ups of an EnumType method: `self._enum(k)`, `self(k)`, `self._enum[k]`, `self._enum.get(k)`"""
    out = []
    for n in body_walk(funcnode):
        if isinstance(n, ast.Call) and src(n.func) in ('self._enum', 'self', 'self._enum.get', 'self._enum.__getitem__') and n.args:
            out.append(n)
        elif isinstance(n, ast.Subscript) and src(n.value) == 'self._enum' and isinstance(n.ctx, ast.Load):
            out.append(n)
    return out


def _lookup_key(n):
    return n.args[0] if isinstance(n, ast.Call) else n.slice


@rule('C02.R6e', min_instances=1)
def enum_member_is_never_tested_by_truth(ctx):
    """an EnumMember is falsy when its code is 0 (EnumMember.__bool__): the result of a member look-up is tested by identity
    / exception, never by its truth value (`lookup(text) or fallback` discards the member with code 0)"""
    m = ctx.m
    ci = _cls(m, 'EnumType')
    mem = m.classes.get('frappy.lib.enum.EnumMember')
    if mem is None:
        raise AnchorMissing('frappy.lib.enum.EnumMember not found')
    if '__bool__' not in mem.methods and '__len__' not in mem.methods:
        ctx.ok(f'{ci.qualname}:members are truthy', None, 'EnumMember defines neither __bool__ nor __len__')
        return
    from sa.rules.common import _in_test_position
    n = 0
    for name, f in sorted(ci.methods.items()):
        looks = _enum_lookups(f.node)
        if not looks:
            continue
        ctx.analysed(f)
        carriers = set()
        for lk in looks:
            par = getattr(lk, 'parent', None)
            if isinstance(par, ast.Assign) and par.value is lk and len(par.targets) == 1 and isinstance(par.targets[0], ast.Name):
                carriers.add(par.targets[0].id)
        for x in body_walk(f.node):
            hit = (x in looks) or (isinstance(x, ast.Name) and isinstance(x.ctx, ast.Load) and x.id in carriers)
            if not hit:
                continue
            n += 1
            par = getattr(x, 'parent', None)
            truth = (isinstance(par, ast.BoolOp) and (x is not par.values[-1] or _in_test_position(par))) or \
                (isinstance(par, ast.UnaryOp) and isinstance(par.op, ast.Not)) or \
                (isinstance(par, (ast.If, ast.IfExp, ast.While)) and par.test is x)
            key = f'{f.qualname}:looked up member not tested by truth value'
            if truth:
                ctx.bad(key, enclosing_stmt(x), f'`{src(enclosing_stmt(x)).splitlines()[0]}` decides by the truth value of the looked up member: '
                        'the member with code 0 is falsy (EnumMember.__bool__), it is treated as "no such member" - its text form is not accepted back', f)
            else:
                ctx.ok(key, x, 'used as a value / tested by identity', f)
    if not n:
        raise AnchorMissing('no member look-up found in EnumType')


@rule('C02.R6d', min_instances=1)
def enum_text_is_the_member_name_first(ctx):
    """EnumType: to_string is the member NAME, so from_string has to try the text as a name before it tries it as a
    python literal (a member may be called '1' or '10': read as a literal it would select the member with that CODE)"""
    m = ctx.m
    ci = _cls(m, 'EnumType')
    ts, fs = ci.methods.get('to_string'), ci.methods.get('from_string')
    if ts is None or fs is None:
        raise AnchorMissing('EnumType.to_string / from_string not found', violation=f'{ci.qualname}:text form is the member name')
    ctx.analysed(fs)
    name_form = all(isinstance(r.value, ast.Attribute) and r.value.attr == 'name' for r in body_walk(ts.node) if isinstance(r, ast.Return))
    if not name_form:
        ctx.undecided(f'{fs.qualname}:name lookup before literal evaluation', ts.node, 'to_string does not return value.name', ts)
        return
    from sa.cfg import CFG
    cfg = CFG(fs.node, m, fs.module)
    tp = fs.node.args.args[1].arg
    lit = [c for c in calls_in(fs.node) if (call_attr(c) == 'from_string' and 'super()' in src(c.func)) or call_attr(c) == 'literal_eval']
    byname = [c for c in _enum_lookups(fs.node) if tp in names_in(resolved(_lookup_key(c), fs.node))]
    if not byname:
        ctx.bad(f'{fs.qualname}:name lookup before literal evaluation', fs.node, 'from_string never looks the text up as a member name: '
                'the text form offered by to_string (the bare name) is not accepted back', fs)
        return
    nid = [i for c in byname for i in cfg.node_of(c)]
    # a membership test of the text in the member table counts as the look-up (`if name in self._enum: ... else: literal`)
    for t in cfg.nodes:
        if t.kind == 'test' and not isinstance(t.ast, ast.stmt):
            for a, tv in facts_on_side(t.ast, True) + facts_on_side(t.ast, False):
                if isinstance(a, ast.Compare) and len(a.ops) == 1 and isinstance(a.ops[0], (ast.In, ast.NotIn)) and src(a.comparators[0]) == 'self._enum' \
                        and tp in names_in(resolved(a.left, fs.node)):
                    nid.append(t.id)
    for c in lit:
        ok = all(cfg.dominates(nid, i) for i in cfg.node_of(c))
        ctx.check(ok, f'{fs.qualname}:name lookup before literal evaluation', c, 'the literal form is tried only after the name lookup failed',
                  f'`{src(c)}` runs before the text was tried as a member name: for an enum with a member named like a number literal '
                  "(e.g. {'1': 0, '2': 1}) the text '1' produced by to_string for code 0 is read as the code 1 - another member", fs)
    if not lit:
        ctx.ok(f'{fs.qualname}:name lookup before literal evaluation', fs.node, 'only the name lookup', fs)


@rule('C02.R11', min_instances=1)
def a_value_at_its_limit_is_accepted_back(ctx):
    """shared with C01.R11b: what export_value hands out is fed to import_value / from_string on the other side - a value of
    exactly the declared maximal length must pass the conversion there (a `range(lo, hi)` membership test excludes hi)"""
    from sa.rules import c01
    c01.range_membership_has_inclusive_bounds(ctx)


def _len_names(f, p):
    """locals of f bound to the length of the offered value (`size = len(value)`, also as a leaf of a conditional expression)"""
    res = set()
    for st in body_walk(f.node):
        if isinstance(st, ast.Assign) and len(st.targets) == 1 and isinstance(st.targets[0], ast.Name):
            leaves = [st.value]
            while any(isinstance(x, ast.IfExp) for x in leaves):
                leaves = [y for x in leaves for y in ((x.body, x.orelse) if isinstance(x, ast.IfExp) else (x,))]
            if any(isinstance(x, ast.Call) and isinstance(x.func, ast.Name) and x.func.id == 'len' and len(x.args) == 1
                   and isinstance(x.args[0], ast.Name) and x.args[0].id == p for x in leaves):
                res.add(st.targets[0].id)
    return res


@rule('C02.R12', min_instances=3)
def an_empty_value_is_not_refused_by_its_truth_value(ctx):
    """the conversions of the sized types (blob, string, array): a refusal must come from a comparison with the declared
    limits, not from the truth value of the length - `if not size: raise` refuses b'' / '' / [] although minbytes / minchars /
    minlen is 0, so a value that was exported can not come back in"""
    m = ctx.m
    for cname in ('BLOBType', 'StringType', 'ArrayOf'):
        for meth in ('__call__', 'validate', 'import_value'):
            if meth not in m.cls(f'{DT}.{cname}').methods:
                continue
            f = m.method(f'{DT}.{cname}', meth, inherited=False)
            if len(f.node.args.args) < 2:
                continue
            ctx.analysed(f)
            p = f.node.args.args[1].arg
            lens = _len_names(f, p)
            # ... and locals holding the converted value itself (`result = b64decode(value)`): an empty blob / string / array is falsy too
            lens |= {st.targets[0].id for st in body_walk(f.node) if isinstance(st, ast.Assign) and len(st.targets) == 1 and isinstance(st.targets[0], ast.Name)
                     and isinstance(st.value, ast.Call) and any(isinstance(a, ast.Name) and a.id == p for a in st.value.args) and st.targets[0].id != p
                     and dotted(st.value.func) not in ('isinstance', 'len', 'type')}
            hits = 0
            for st in body_walk(f.node):
                if not isinstance(st, ast.If):
                    continue
                # which branch runs for length 0, when the test is the truth value of the length (or its negation)
                t, neg = st.test, False
                while isinstance(t, ast.UnaryOp) and isinstance(t.op, ast.Not):
                    t, neg = t.operand, not neg
                is_len = (isinstance(t, ast.Name) and t.id in lens) or (
                    isinstance(t, ast.Call) and isinstance(t.func, ast.Name) and t.func.id == 'len' and len(t.args) == 1
                    and isinstance(t.args[0], ast.Name) and t.args[0].id == p)
                if not is_len:
                    continue
                branch = st.body if neg else st.orelse
                if branch and any(isinstance(x, ast.Raise) for x in branch):
                    hits += 1
                    ctx.bad(f'{f.qualname}:an empty value is refused by a comparison with the limit only', st,
                            f'`if {src(st.test)}:` raises for length 0 whatever the declared minimum is: an empty value is valid when the '
                            'minimal length is 0 (the default), it is exported and then refused on the way back in', f)
            if not hits:
                ctx.ok(f'{f.qualname}:an empty value is refused by a comparison with the limit only', f.node,
                       f'no refusal decided by the truth value of the length (length locals: {sorted(lens) or "-"})', f)


@rule('C02.R13', min_instances=1)
def struct_import_allows_absent_optional_members(ctx):
    """StructOf.import_value reaches check_type with allow_optional true (directly, or through a helper method of the class that
    passes its own parameter on): what export_value of a client side struct emits - a value without an optional member - must
    come back in on the node, where check_type(value) without the flag demands every member"""
    m = ctx.m
    f = m.method(f'{DT}.StructOf', 'import_value', inherited=False)
    ctx.analysed(f)
    ci = m.cls(f'{DT}.StructOf')
    verdicts = []

    def flag_of(call, binding, depth, owner):
        a = call.args[1] if len(call.args) > 1 else (kwarg(call, 'allow_optional'))
        if a is None:
            return False, call
        if isinstance(a, ast.Constant):
            return bool(a.value), call
        if isinstance(a, ast.Name) and a.id in binding:
            b = binding[a.id]
            return (bool(b.value) if isinstance(b, ast.Constant) else None), call
        return None, call

    def scan(fn, binding, depth):
        for c in calls_in(fn.node):
            if call_attr(c) == 'check_type' and dotted(c.func.value) == 'self':
                verdicts.append(flag_of(c, binding, depth, fn))
            elif depth < 2 and isinstance(c.func, ast.Attribute) and dotted(c.func.value) == 'self' and c.func.attr in ci.methods and c.func.attr != fn.name:
                h = ci.methods[c.func.attr]
                if any(call_attr(x) == 'check_type' for x in calls_in(h.node)):
                    b = type(m)._bind(h.node, c)
                    if b is None:
                        verdicts.append((None, c))
                    else:
                        b = {k: (binding.get(v.id, v) if isinstance(v, ast.Name) else v) for k, v in b.items()}
                        scan(h, b, depth + 1)
    scan(f, {}, 0)
    if not verdicts:
        raise AnchorMissing('no check_type call reached from StructOf.import_value')
    for v, c in verdicts:
        if v is None:
            ctx.undecided(f'{f.qualname}:optional members may be absent on import', c, f'`{src(c)}`: the flag is not a constant', f)
        else:
            ctx.check(v, f'{f.qualname}:optional members may be absent on import', c, 'check_type(value, True)',
                      f'`{src(c)}` is reached from import_value without allow_optional: a struct value lacking an optional member - valid, and exported like that by the '
                      'client side type - is refused with "missing struct elements" on its way back in', f)


@rule('C02.R14', min_instances=1)
def optional_members_may_be_absent_on_the_client_or_on_request(ctx):
    """StructOf.check_type (with the helper methods it uses): the optional members are taken out of the required ones when the type
    is a client side type OR the caller allows it - decided by fixing the two conditions to each combination and asking whether
    the use of self.optional that depends on them is reached: under (client, not allowed), (not client, allowed) and (both) it is,
    under (neither) it is not.  `if not allow_optional or not self.client: return ()` (De Morgan slip) needs BOTH, and every
    value lacking an optional member is refused on import and on the client"""
    m = ctx.m
    ci = m.cls(f'{DT}.StructOf')
    ct = ci.methods.get('check_type')
    if ct is None:
        raise AnchorMissing('StructOf.check_type not found')
    unit = [ct] + [ci.methods[c.func.attr] for c in calls_in(ct.node) if isinstance(c.func, ast.Attribute) and dotted(c.func.value) == 'self' and c.func.attr in ci.methods
                   and c.func.attr != 'check_type']
    g = next((h for h in unit if any(isinstance(x, ast.Attribute) and x.attr == 'client' and dotted(x.value) == 'self' for x in body_walk(h.node))), None)
    if g is None:
        raise AnchorMissing('test of self.client not found in StructOf.check_type and its helpers')
    ctx.analysed(g)
    params = [a.arg for a in g.node.args.args][1:]
    flag = next((p_ for p_ in params if 'optional' in p_), None)
    if flag is None:
        raise AnchorMissing(f'{g.qualname} has no allow_optional parameter')
    cfg = CFG(g.node, m, g.module)
    uses = {i for n in cfg.nodes if n.ast is not None and not isinstance(n.ast, (ast.FunctionDef, ast.ClassDef))
            for x in ast.walk(n.ast) if isinstance(x, ast.Attribute) and x.attr == 'optional' and dotted(x.value) == 'self' for i in [n.id]}

    def reach(client, allowed):
        return reach_under(cfg, g.node, {'self.client': client, flag: allowed}, exc=False)
    cond = uses - reach(False, False)
    if not cond:
        ctx.undecided(f'{g.qualname}:optional members are omissible iff client or allow_optional', g.node, 'no use of self.optional that depends on the two conditions found', g)
        return
    bad_ = [(c_, a_) for c_, a_ in ((True, False), (False, True), (True, True)) if not (cond & reach(c_, a_))]
    ctx.check(not bad_, f'{g.qualname}:optional members are omissible iff client or allow_optional', g.node, 'self.optional is applied under each of the three combinations',
              f'with (client, allow_optional) = {bad_[0] if bad_ else ""} the optional members are NOT taken out of the required ones: a struct value without an optional member is '
              'refused ("missing struct elements") where it has to be accepted - on import on the node, or on every use on the client', g)
