"""Helpers shared by the rules: lock regions, stores, provenance, guards, handler shapes."""
import ast

from sa.model import (FUNC_TYPES, ancestors, body_walk, call_attr, call_name, calls_in, dotted,
                      enclosing_func, enclosing_stmt, src, walk_local, names_in, kwarg, const_str)
from sa.cfg import CFG, CFGUnsupported

__all__ = ['ast', 'CFG', 'CFGUnsupported', 'dotted', 'src', 'calls_in', 'call_attr', 'call_name', 'body_walk',
           'walk_local', 'ancestors', 'enclosing_func', 'enclosing_stmt', 'FUNC_TYPES', 'names_in', 'kwarg', 'const_str']


# ----------------------------------------------------------------------------- locks

def lock_regions(node, stop=None):
    """dotted lock expressions whose region lexically contains node (inside the same function).
    Recognised: `with X:` and `X.acquire()` directly followed by `try: ... finally: X.release()`."""
    res = []
    child = node
    for a in ancestors(node):
        if isinstance(a, FUNC_TYPES) or a is stop:
            break
        if isinstance(a, (ast.With, ast.AsyncWith)) and child in a.body:
            for it in a.items:
                d = dotted(it.context_expr)
                if d:
                    res.append(d)
        if isinstance(a, ast.Try) and a.finalbody and child in a.body:
            rel = set()
            for st in a.finalbody:
                if isinstance(st, ast.Expr) and isinstance(st.value, ast.Call) and call_attr(st.value) == 'release':
                    d = dotted(st.value.func.value) if isinstance(st.value.func, ast.Attribute) else None
                    if d:
                        rel.add(d)
            if rel:
                # look for the acquire in the statement before the try (same statement list)
                par = getattr(a, 'parent', None)
                for field in ('body', 'orelse', 'finalbody'):
                    lst = getattr(par, field, None)
                    if isinstance(lst, list) and a in lst:
                        i = lst.index(a)
                        for prev in lst[:i][::-1][:2]:
                            for c in calls_in(prev):
                                if call_attr(c) == 'acquire' and isinstance(c.func, ast.Attribute):
                                    d = dotted(c.func.value)
                                    if d in rel:
                                        res.append(d)
        child = a
    return res


def in_lock(node, attr):
    """node is lexically inside a region of a lock whose dotted name ends with .attr (or equals attr);
    a local alias (lock = self.updateLock) is resolved through its assignment"""
    names = []
    fn = enclosing_func(node)
    for d in lock_regions(node):
        names.append(d)
        if '.' not in d and fn is not None and not isinstance(fn, ast.Lambda):
            for v, st, how in local_assigns(fn, d):
                if how == 'assign' and v is not None and dotted(v):
                    names.append(dotted(v))
    return any(d == attr or d.endswith('.' + attr) for d in names)


# ----------------------------------------------------------------------------- stores

def target_attrs(target):
    """yield ast.Attribute nodes stored by an assignment target (tuples unpacked)"""
    if isinstance(target, ast.Attribute):
        yield target
    elif isinstance(target, (ast.Tuple, ast.List)):
        for e in target.elts:
            yield from target_attrs(e)
    elif isinstance(target, ast.Starred):
        yield from target_attrs(target.value)


def attr_stores(funcnode_or_tree, whole_tree=False):
    """yield (Attribute target node, value expr or None, stmt) for every attribute store.
    Also `setattr(x, 'lit', v)` as a pseudo store: (Call, value, stmt) with .attr emulated."""
    it = ast.walk(funcnode_or_tree) if whole_tree else body_walk(funcnode_or_tree, into_lambda=True)
    for n in it:
        if isinstance(n, ast.Assign):
            for t in n.targets:
                for a in target_attrs(t):
                    yield a, n.value, n
        elif isinstance(n, ast.AugAssign):
            for a in target_attrs(n.target):
                yield a, n.value, n
        elif isinstance(n, ast.AnnAssign) and n.value is not None:
            for a in target_attrs(n.target):
                yield a, n.value, n
        elif isinstance(n, (ast.For, ast.AsyncFor)):
            for a in target_attrs(n.target):
                yield a, None, n
        elif isinstance(n, (ast.With, ast.AsyncWith)):
            for it_ in n.items:
                if it_.optional_vars is not None:
                    for a in target_attrs(it_.optional_vars):
                        yield a, None, n
        elif isinstance(n, ast.Delete):
            for t in n.targets:
                for a in target_attrs(t):
                    yield a, None, n


def local_assigns(funcnode, name):
    """value exprs assigned to the local `name` in funcnode's own body:
    list of (value expr | None, stmt, how) ; how in {'assign','for','with','aug','unpack','param','walrus'}"""
    res = []
    args = funcnode.args
    for a in args.posonlyargs + args.args + args.kwonlyargs + [x for x in (args.vararg, args.kwarg) if x]:
        if a.arg == name:
            res.append((None, funcnode, 'param'))
    for n in body_walk(funcnode, into_lambda=False):
        if isinstance(n, ast.Assign):
            for t in n.targets:
                if isinstance(t, ast.Name) and t.id == name:
                    res.append((n.value, n, 'assign'))
                elif isinstance(t, (ast.Tuple, ast.List)):
                    for i, e in enumerate(t.elts):
                        if isinstance(e, ast.Name) and e.id == name:
                            v = None
                            if isinstance(n.value, (ast.Tuple, ast.List)) and len(n.value.elts) == len(t.elts):
                                v = n.value.elts[i]
                                res.append((v, n, 'assign'))
                            else:
                                res.append((n.value, n, 'unpack'))
        elif isinstance(n, ast.AnnAssign) and isinstance(n.target, ast.Name) and n.target.id == name:
            res.append((n.value, n, 'assign'))
        elif isinstance(n, ast.AugAssign) and isinstance(n.target, ast.Name) and n.target.id == name:
            res.append((n.value, n, 'aug'))
        elif isinstance(n, (ast.For, ast.AsyncFor, ast.comprehension)):
            if name in {x.id for x in ast.walk(n.target) if isinstance(x, ast.Name)}:
                res.append((n.iter, n, 'for'))
        elif isinstance(n, (ast.With, ast.AsyncWith)):
            for it in n.items:
                if it.optional_vars is not None and name in {x.id for x in ast.walk(it.optional_vars) if isinstance(x, ast.Name)}:
                    res.append((it.context_expr, n, 'with'))
        elif isinstance(n, ast.NamedExpr) and isinstance(n.target, ast.Name) and n.target.id == name:
            res.append((n.value, n, 'walrus'))
        elif isinstance(n, ast.ExceptHandler) and n.name == name:
            res.append((None, n, 'except'))
    return res


def origins(expr, funcnode, depth=4, _seen=None):
    """expressions `expr` may denote, following local single-name assignments transitively.
    Returns a list of ast expressions (terminal ones: calls, attributes, constants, params as Name)."""
    if _seen is None:
        _seen = set()
    if isinstance(expr, ast.Name) and depth > 0:
        key = expr.id
        if key in _seen:
            return [expr]
        _seen = _seen | {key}
        defs = local_assigns(funcnode, expr.id)
        out = []
        for v, st, how in defs:
            if how == 'assign' and v is not None:
                out.extend(origins(v, funcnode, depth - 1, _seen))
            else:
                out.append(expr)
        return out or [expr]
    if isinstance(expr, ast.IfExp):
        return origins(expr.body, funcnode, depth, _seen) + origins(expr.orelse, funcnode, depth, _seen)
    return [expr]


def is_call_of(expr, attrs):
    """expr is a call whose callee's last component is in attrs"""
    return isinstance(expr, ast.Call) and call_attr(expr) in attrs


def provenance_is_call(expr, funcnode, attrs, depth=4):
    """every origin of expr is a call to one of `attrs` (e.g. {'validate'}); resolves local aliases of
    bound methods:  validate = X.datatype.validate ; y = validate(v)"""
    outs = origins(expr, funcnode, depth)
    if not outs:
        return False
    for o in outs:
        if not isinstance(o, ast.Call):
            return False
        a = call_attr(o)
        if a in attrs:
            continue
        # alias of a bound method
        if isinstance(o.func, ast.Name):
            al = origins(o.func, funcnode, depth)
            if al and all(isinstance(x, ast.Attribute) and x.attr in attrs for x in al):
                continue
        return False
    return True


# ----------------------------------------------------------------------------- handlers / try

def enclosing_tries(node, stop=None):
    """yield (Try node, part) for every try statement lexically containing node inside the same function;
    part in {'body','handler','orelse','finalbody'}"""
    child = node
    for a in ancestors(node):
        if isinstance(a, FUNC_TYPES) or a is stop:
            break
        if isinstance(a, ast.Try):
            if child in a.body:
                yield a, 'body'
            elif child in a.orelse:
                yield a, 'orelse'
            elif child in a.finalbody:
                yield a, 'finalbody'
        if isinstance(a, ast.ExceptHandler):
            t = a.parent
            yield t, 'handler'
            child = t
            # skip the Try itself in the next iteration
            continue
        child = a


def handler_catches_all(h, model=None, module=None):
    """bare except, or except Exception / BaseException (possibly in a tuple)"""
    if h.type is None:
        return True
    elts = h.type.elts if isinstance(h.type, ast.Tuple) else [h.type]
    for e in elts:
        d = dotted(e)
        if d in ('Exception', 'BaseException'):
            return True
    return False


def handler_reraises(h):
    """handler body contains a raise that is not nested in a further function"""
    for st in h.body:
        for n in walk_local(st):
            if isinstance(n, ast.Raise):
                return True
    return False


def contained_by_catch_all(node, stop=None):
    """node is in the body of a try that has a catch-all handler (innermost such try is returned)"""
    for t, part in enclosing_tries(node, stop):
        if part == 'body':
            for h in t.handlers:
                if handler_catches_all(h):
                    return t, h
    return None, None


# ----------------------------------------------------------------------------- misc

def func_calls(funcnode, attr=None, name=None, into_lambda=True):
    res = []
    for c in calls_in(funcnode, into_lambda=into_lambda):
        if attr is not None and call_attr(c) == attr:
            res.append(c)
        elif name is not None and call_name(c) == name:
            res.append(c)
    return res


def stmts_of(funcnode):
    for n in body_walk(funcnode):
        if isinstance(n, ast.stmt):
            yield n


def lexical_index(funcnode):
    """map id(node) -> pre-order index, for 'textually before' comparisons inside straight-line code"""
    idx = {}
    for i, n in enumerate(ast.walk(funcnode)):
        idx[id(n)] = i
    return idx


def pos(node):
    return (getattr(node, 'lineno', 0), getattr(node, 'col_offset', 0))


def compare_ops(test):
    """normalise a comparison `a OP b` into canonical tuples (left_src, op, right_src) with op in
    {'<','<=','==','!=','in','notin','is','isnot'}; `not (...)` flips.  Chained comparisons are split."""
    neg = False
    while isinstance(test, ast.UnaryOp) and isinstance(test.op, ast.Not):
        neg = not neg
        test = test.operand
    res = []
    if isinstance(test, ast.Compare):
        left = test.left
        for op, right in zip(test.ops, test.comparators):
            res.append(_norm_cmp(left, op, right, neg))
            left = right
    return res


def conj_compare_ops(test):
    """compare_ops over the conjuncts of `a and b and ...` (a chained comparison and its split form read the same)"""
    if isinstance(test, ast.BoolOp) and isinstance(test.op, ast.And):
        return [t for v in test.values for t in conj_compare_ops(v)]
    return compare_ops(test)


_FLIP = {'<': '>', '<=': '>=', '>': '<', '>=': '<=', '==': '==', '!=': '!='}
_NEG = {'<': '>=', '<=': '>', '>': '<=', '>=': '<', '==': '!=', '!=': '==', 'in': 'notin', 'notin': 'in',
        'is': 'isnot', 'isnot': 'is'}
_OPS = {ast.Lt: '<', ast.LtE: '<=', ast.Gt: '>', ast.GtE: '>=', ast.Eq: '==', ast.NotEq: '!=', ast.In: 'in',
        ast.NotIn: 'notin', ast.Is: 'is', ast.IsNot: 'isnot'}


def _norm_cmp(left, op, right, neg):
    o = _OPS[type(op)]
    if neg:
        o = _NEG[o]
    l, r = src(left), src(right)
    if o in ('>', '>='):
        o = _FLIP[o]
        l, r = r, l
    return (l, o, r)


def contains_raise(stmts):
    for st in stmts:
        for n in walk_local(st):
            if isinstance(n, ast.Raise):
                return True
    return False


def raised_names(stmts):
    """dotted names of classes raised in stmts (raise X(...) / raise X)"""
    out = []
    for st in stmts:
        for n in walk_local(st):
            if isinstance(n, ast.Raise) and n.exc is not None:
                e = n.exc.func if isinstance(n.exc, ast.Call) else n.exc
                out.append((dotted(e), n))
    return out


# ----------------------------------------------------------------------------- exception classes (stdlib introspection)

def py_exc(name):
    """python exception class for a dotted name of a builtin / stdlib exception (never repo code), else None"""
    import builtins
    import importlib
    if not name:
        return None
    if name.startswith('builtins.'):
        name = name[9:]
    if '.' not in name:
        c = getattr(builtins, name, None)
        return c if isinstance(c, type) and issubclass(c, BaseException) else None
    head, _, attr = name.rpartition('.')
    if head.split('.')[0] not in ('json', 'socket', 'queue', 'os', 'binascii', 'struct', 'ast', 'select', 'ssl',
                                  'subprocess', 'threading', 'errno', 'io', 'zlib', 'base64'):
        return None
    try:
        mod = importlib.import_module(head)
    except Exception:
        return None
    c = getattr(mod, attr, None)
    return c if isinstance(c, type) and issubclass(c, BaseException) else None


def handler_type_names(h):
    if h.type is None:
        return None
    elts = h.type.elts if isinstance(h.type, ast.Tuple) else [h.type]
    return [dotted(e) or src(e) for e in elts]


def handler_covers(h, exc_pyclasses, module=None):
    """does handler h catch every one of the given python exception classes"""
    names = handler_type_names(h)
    if names is None:
        return True
    hcls = []
    for n in names:
        if module is not None and n in module.imports:
            n = module.imports[n]
        c = py_exc(n)
        if c is not None:
            hcls.append(c)
    return all(any(issubclass(e, c) for c in hcls) for e in exc_pyclasses)


def covering_handler(node, exc_pyclasses, module=None, stop=None):
    """innermost handler (of a try whose body contains node) that catches all given classes, else None"""
    for t, part in enclosing_tries(node, stop):
        if part == 'body':
            for h in t.handlers:
                if handler_covers(h, exc_pyclasses, module):
                    return h
    return None


def handler_leaves_loop_or_raises(h):
    """handler body contains return / break / raise (not inside a nested def)"""
    for st in h.body:
        for n in walk_local(st):
            if isinstance(n, (ast.Return, ast.Break, ast.Raise)):
                return True
    return False


def short_circuit_facts(use):
    """isinstance facts known when `use` is evaluated, from short-circuit operators / conditional expressions
    inside the same statement:  `not isinstance(x, dict) or x.get(...)`  =>  x is a dict at the .get"""
    from sa.typestate import isinstance_facts
    facts = []
    child = use
    for a in ancestors(use):
        if isinstance(a, ast.stmt):
            break
        if isinstance(a, ast.BoolOp) and child in a.values:
            i = a.values.index(child)
            for prev in a.values[:i]:
                facts.extend(isinstance_facts(prev, positive=isinstance(a.op, ast.And)))
        if isinstance(a, ast.IfExp):
            if child is a.body:
                facts.extend(isinstance_facts(a.test, True))
            elif child is a.orelse:
                facts.extend(isinstance_facts(a.test, False))
        child = a
    return facts


def membership_facts(use):
    """`'k' in x` facts from short-circuit operands preceding `use`: list of (key_src, container_src, positive)"""
    facts = []
    child = use
    for a in ancestors(use):
        if isinstance(a, ast.stmt):
            break
        if isinstance(a, ast.BoolOp) and child in a.values:
            i = a.values.index(child)
            for prev in a.values[:i]:
                pos_ = isinstance(a.op, ast.And)
                for l, op, r in compare_ops(prev):
                    if op == 'in':
                        facts.append((l, r, pos_))
                    elif op == 'notin':
                        facts.append((l, r, not pos_))
        child = a
    return facts


# ----------------------------------------------------------------------------- reaching definitions (flow sensitive)

class ReachingDefs:
    """reaching definitions of local names over a CFG.  A definition is (value expr | None, stmt ast, how)."""

    def __init__(self, cfg, funcnode):
        from sa.typestate import forward
        self.cfg = cfg
        self.func = funcnode
        self.defs = {}      # def id -> (name, value, stmt, how)
        init = {}
        a = funcnode.args if not isinstance(funcnode, ast.Lambda) else funcnode.args
        for x in a.posonlyargs + a.args + a.kwonlyargs + [y for y in (a.vararg, a.kwarg) if y]:
            did = len(self.defs)
            self.defs[did] = (x.arg, None, funcnode, 'param')
            init[x.arg] = frozenset({did})
        self._node_defs = {}   # cfg node id -> list of (name, def id)
        for n in cfg.nodes:
            if n.ast is None:
                continue
            lst = []
            for name, value, how in self._defs_of(n):
                did = len(self.defs)
                self.defs[did] = (name, value, n.ast, how)
                lst.append((name, did))
            self._node_defs[n.id] = lst

        def transfer(node, state):
            for name, did in self._node_defs.get(node.id, []):
                state[name] = frozenset({did})
            return state

        self.ins, self.outs = forward(cfg, init, transfer, join=lambda x, y: x | y)

    @staticmethod
    def _target_names(t):
        return [x.id for x in ast.walk(t) if isinstance(x, ast.Name) and isinstance(x.ctx, (ast.Store, ast.Del))]

    def _defs_of(self, node):
        a = node.ast
        out = []
        if node.kind == 'for' and isinstance(a, (ast.For, ast.AsyncFor)):
            for nm in self._target_names(a.target):
                out.append((nm, a.iter, 'for'))
            return out
        if node.kind == 'with':
            for it in a.items:
                if it.optional_vars is not None:
                    for nm in self._target_names(it.optional_vars):
                        out.append((nm, it.context_expr, 'with'))
            return out
        if node.kind == 'handler':
            if a.name:
                out.append((a.name, None, 'except'))
            return out
        if isinstance(a, ast.Assign):
            for t in a.targets:
                if isinstance(t, ast.Name):
                    out.append((t.id, a.value, 'assign'))
                elif isinstance(t, (ast.Tuple, ast.List)):
                    same = isinstance(a.value, (ast.Tuple, ast.List)) and len(a.value.elts) == len(t.elts)
                    for i, e in enumerate(t.elts):
                        if isinstance(e, ast.Name):
                            out.append((e.id, a.value.elts[i] if same else a.value, 'assign' if same else 'unpack'))
                        else:
                            for nm in self._target_names(e):
                                out.append((nm, a.value, 'unpack'))
        elif isinstance(a, ast.AnnAssign) and isinstance(a.target, ast.Name) and a.value is not None:
            out.append((a.target.id, a.value, 'assign'))
        elif isinstance(a, ast.AugAssign) and isinstance(a.target, ast.Name):
            out.append((a.target.id, a.value, 'aug'))
        elif isinstance(a, (ast.Import, ast.ImportFrom)):
            for al in a.names:
                out.append(((al.asname or al.name).split('.')[0], None, 'import'))
        elif isinstance(a, (ast.FunctionDef, ast.AsyncFunctionDef, ast.ClassDef)):
            out.append((a.name, None, 'def'))
        if isinstance(a, ast.AST) and not isinstance(a, (ast.FunctionDef, ast.AsyncFunctionDef, ast.ClassDef)):
            for x in walk_local(a):
                if isinstance(x, ast.NamedExpr) and isinstance(x.target, ast.Name):
                    out.append((x.target.id, x.value, 'walrus'))
        return out

    def at(self, use_node, name):
        """definitions of `name` reaching the cfg node(s) of the statement containing use_node
        -> list of (value expr | None, stmt, how)"""
        res = []
        seen = set()
        for nid in self.cfg.node_of(use_node):
            for did in self.ins.get(nid, {}).get(name, ()):
                if did not in seen:
                    seen.add(did)
                    _, value, stmt, how = self.defs[did]
                    res.append((value, stmt, how))
        return res

    def origins_at(self, use_node, expr, depth=4):
        """flow-sensitive version of origins(): terminal expressions `expr` may denote at use_node"""
        if isinstance(expr, ast.Name) and depth > 0:
            defs = self.at(use_node, expr.id)
            if not defs:
                return [expr]
            out = []
            for value, stmt, how in defs:
                if how == 'assign' and value is not None:
                    out.extend(self.origins_at(stmt, value, depth - 1))
                elif how == 'aug':
                    out.append(ast.Name(id=f'<aug:{expr.id}>', ctx=ast.Load()))
                else:
                    out.append(ast.Name(id=f'<{how}:{expr.id}>', ctx=ast.Load()))
            return out
        if isinstance(expr, ast.IfExp):
            return self.origins_at(use_node, expr.body, depth) + self.origins_at(use_node, expr.orelse, depth)
        return [expr]


def is_method_call(expr, attrs, rd=None, at=None):
    """expr is a call of .<attr>(...) for attr in attrs, or of a local alias bound to such a bound method"""
    if not isinstance(expr, ast.Call):
        return False
    if isinstance(expr.func, ast.Attribute) and expr.func.attr in attrs:
        return True
    if isinstance(expr.func, ast.Name) and rd is not None:
        al = rd.origins_at(at if at is not None else expr, expr.func)
        return bool(al) and all(isinstance(x, ast.Attribute) and x.attr in attrs for x in al)
    return False


def loop_anchor(cfg, node):
    """cfg ids to use for dominance questions about `node`: a call inside for-loops over a collection is
    represented by its outermost enclosing for statement (an empty collection has nothing to do anyway)"""
    outer = None
    for a in ancestors(node):
        if isinstance(a, FUNC_TYPES):
            break
        if isinstance(a, (ast.For, ast.AsyncFor)):
            outer = a
    if outer is not None:
        return cfg.ids(outer)
    return cfg.node_of(node)


# ----------------------------------------------------------------------------- helper extraction (one level)

def helper_methods_called(m, fi):
    """[(call node in fi, FuncInfo of the helper)] for `self.<helper>(...)` calls resolving to a method of the same
    class hierarchy (an extracted private helper)"""
    out = []
    if fi.cls is None:
        return out
    for c in calls_in(fi.node):
        f = c.func
        if isinstance(f, ast.Attribute) and dotted(f.value) == 'self':
            for q in m.mro(fi.cls.qualname) + m.subclasses(fi.cls.qualname):
                ci = m.classes.get(q)
                if ci and f.attr in ci.methods and ci.methods[f.attr] is not fi:
                    out.append((c, ci.methods[f.attr]))
                    break
    return out


def deep_calls(m, fi, pred, depth=1):
    """calls satisfying pred in fi itself and, one level deep, in helper methods of the same class called from fi.
    -> list of (call, owner FuncInfo, site): site is the node inside fi that stands for the call in dominance / region
    questions about fi (the call itself, or the helper call)"""
    res = [(c, fi, c) for c in calls_in(fi.node) if pred(c)]
    if depth > 0:
        for site, helper in helper_methods_called(m, fi):
            for c in calls_in(helper.node):
                if pred(c):
                    res.append((c, helper, site))
    return res


def in_lock_deep(call, owner, site, attr):
    """the call runs inside a lock region named *.attr, in its own function or around the helper call site"""
    return in_lock(call, attr) or (site is not call and in_lock(site, attr))


def exit_calls(m, fi, cfg):
    """calls in fi that end the process: sys.exit(...) itself, or a helper method of the same class that never returns
    and contains the sys.exit (the error report was extracted into a helper)"""
    res = []
    helpers = {id(site): h for site, h in helper_methods_called(m, fi)}
    for c in calls_in(fi.node):
        if call_name(c) == 'sys.exit':
            res.append(c)
        elif cfg._helper_never_returns(c) and id(c) in helpers and any(call_name(x) == 'sys.exit' for x in calls_in(helpers[id(c)].node)):
            res.append(c)
    return res


def deep_nodes(m, fi):
    """nodes of fi's own body and, one level deep, of the helper methods of the same class it calls"""
    yield from body_walk(fi.node)
    seen = set()
    for site, helper in helper_methods_called(m, fi):
        if id(helper) not in seen:
            seen.add(id(helper))
            yield from body_walk(helper.node)


def side_never_completes(cfg, tid, label):
    """no normal exit of the function is reachable from the `label` side ('T' / 'F') of test node tid: that side always raises"""
    succ = [b for b, lab in cfg.succ[tid] if lab == label]
    if not succ:
        return False
    r = set(succ) | cfg.reach(succ, exc=False)
    if cfg.exit not in r:
        return True
    # the refusal may be collected first and raised at the end (`complaint = '...'` ... `if complaint: raise ...`)
    return cfg.exit not in reach_with_flags(cfg, succ)


def can_end_without_value(cfg, funcnode, good=None, explicit_none_ok=False):
    """a normal exit of the function is reachable without passing a `return <value>` statement (falling off the end, a bare
    `return`, `return None`); finally blocks between the return and the exit are fine.  good(return stmt) may narrow what
    counts as a proper return"""
    ok_ids = []
    for n in body_walk(funcnode):
        if isinstance(n, ast.Return) and n.value is not None and (explicit_none_ok or not (isinstance(n.value, ast.Constant) and n.value.value is None)):
            if good is None or good(n):
                ok_ids += cfg.ids(n)
    ok_ids = set(ok_ids)
    seen, stack = set(), [cfg.entry]
    while stack:
        n = stack.pop()
        if n in seen:
            continue
        seen.add(n)
        for b, lab in cfg.succ[n]:
            # a proper return ends its path - except that evaluating its expression may raise into a handler of the function
            if n in ok_ids and lab != 'exc':
                continue
            stack.append(b)
    return cfg.exit in seen


def facts_on_side(test, truth):
    """atomic conditions known on the side of `test` where it evaluates to `truth`: [(atom expression, its truth value)].
    true side of `a and b`: both true; false side of `a or b`: both false; `not x` flips; other shapes give the whole test"""
    if isinstance(test, ast.UnaryOp) and isinstance(test.op, ast.Not):
        return facts_on_side(test.operand, not truth)
    if isinstance(test, ast.BoolOp):
        if (isinstance(test.op, ast.And) and truth) or (isinstance(test.op, ast.Or) and not truth):
            out = []
            for v in test.values:
                out += facts_on_side(v, truth)
            return out
        return []
    return [(test, truth)]


def sides_with_fact(cfg, pred):
    """CFG node sets on which some test establishes a fact accepted by pred(atom, truth): union over all tests and both sides"""
    res = set()
    for t in cfg.nodes:
        if t.kind != 'test':
            continue
        for truth, label in ((True, 'T'), (False, 'F')):
            if any(pred(a, tv) for a, tv in facts_on_side(t.ast, truth)):
                on = cfg.reach([t.id], labels={label}, avoid=[t.id])
                off = cfg.reach([t.id], labels={'F' if label == 'T' else 'T'}, avoid=[t.id])
                res |= (on - off)
    return res


def paths_need_fact(cfg, src_ids, dst_ids, pred, avoid=(), exc=False):
    """every path from a source node to a destination node (not entering `avoid`) leaves some test on an edge that establishes
    a fact accepted by pred(atom, truth) - e.g. the raw result of do() reaches the return only where `<cmd>.result` is falsy"""
    avoid = set(avoid)
    dst = set(dst_ids)
    seen, stack = set(), list(src_ids)
    while stack:
        n = stack.pop()
        if n in seen:
            continue
        seen.add(n)
        t = cfg.nodes[n]
        for b, lab in cfg.succ[n]:
            if (lab == 'exc' and not exc) or b in avoid:
                continue
            if t.kind == 'test' and lab in ('T', 'F') and not isinstance(t.ast, ast.stmt) and \
                    any(pred(a, tv) for a, tv in facts_on_side(t.ast, lab == 'T')):
                continue        # this edge establishes the fact: paths through it are fine
            if b in dst:
                return False
            stack.append(b)
    return True


def eval_under(test, env, funcnode=None):
    """three-valued truth of a condition when the atoms in env (source text -> bool; `X is None` is an atom of its own) are
    fixed: True / False / None (not determined).  Locals bound once are read through."""
    if funcnode is not None:
        test = resolved(test, funcnode)
    if isinstance(test, ast.UnaryOp) and isinstance(test.op, ast.Not):
        v = eval_under(test.operand, env)
        return None if v is None else (not v)
    if isinstance(test, ast.BoolOp):
        vals = [eval_under(v, env) for v in test.values]
        if isinstance(test.op, ast.And):
            return False if any(v is False for v in vals) else (True if all(v is True for v in vals) else None)
        return True if any(v is True for v in vals) else (False if all(v is False for v in vals) else None)
    if isinstance(test, ast.Compare) and len(test.ops) == 1 and isinstance(test.ops[0], (ast.Is, ast.IsNot)) and \
            isinstance(test.comparators[0], ast.Constant) and test.comparators[0].value is None:
        v = env.get(f'{src(test.left)} is None')
        if v is None:
            return None
        return v if isinstance(test.ops[0], ast.Is) else (not v)
    if isinstance(test, ast.Call) and isinstance(test.func, ast.Name) and test.func.id == 'bool' and len(test.args) == 1 and not test.keywords:
        return eval_under(test.args[0], env)
    if isinstance(test, ast.Compare) and len(test.ops) == 1 and isinstance(test.ops[0], (ast.Eq, ast.NotEq, ast.Is, ast.IsNot)):
        # two conditions compared with each other: `bool(argtype) == missing`
        def boolean(e):
            return isinstance(e, (ast.Compare, ast.BoolOp)) or (isinstance(e, ast.UnaryOp) and isinstance(e.op, ast.Not)) or \
                (isinstance(e, ast.Call) and isinstance(e.func, ast.Name) and e.func.id == 'bool') or (isinstance(e, ast.Constant) and isinstance(e.value, bool))
        l, r = test.left, test.comparators[0]
        if boolean(l) and boolean(r):
            lv = l.value if isinstance(l, ast.Constant) else eval_under(l, env)
            rv = r.value if isinstance(r, ast.Constant) else eval_under(r, env)
            if lv is not None and rv is not None:
                same = lv == rv
                return same if isinstance(test.ops[0], (ast.Eq, ast.Is)) else not same
    return env.get(src(test))


def reach_under(cfg, funcnode, env, exc=True, avoid=()):
    """CFG nodes reachable from the entry when the atoms of env are fixed (a finite abstraction of the path conditions:
    tests that env decides are followed on one side only), not entering the nodes in `avoid`"""
    avoid = set(avoid)
    seen, stack = set(), [cfg.entry]
    while stack:
        n = stack.pop()
        if n in seen or n in avoid:
            continue
        seen.add(n)
        t = cfg.nodes[n]
        known = eval_under(t.ast, env, funcnode) if t.kind == 'test' and not isinstance(t.ast, ast.stmt) else None
        for b, lab in cfg.succ[n]:
            if (known is True and lab == 'F') or (known is False and lab == 'T') or (lab == 'exc' and not exc):
                continue
            stack.append(b)
    return seen


def _literal_truth(v):
    """truth value of a literal: constants, f-strings with a non-empty constant part, non-empty displays; None when unknown"""
    if isinstance(v, ast.Constant):
        return bool(v.value)
    if isinstance(v, ast.JoinedStr):
        return True if any(isinstance(p, ast.Constant) and p.value for p in v.values) else None
    if isinstance(v, (ast.Tuple, ast.List, ast.Set)):
        return bool(v.elts) if not any(isinstance(e, ast.Starred) for e in v.elts) else None
    if isinstance(v, ast.Dict):
        return bool(v.keys) if all(k is not None for k in v.keys) else None
    return None


def env_d0(env):
    return dict(env)


def reach_with_flags(cfg, start_ids, avoid=(), exc=False, env=None):
    """nodes reachable from start_ids (not entering `avoid`) when locals that are bound to a constant on the way (`ok = False`)
    are remembered and the tests they decide (`if not ok:`) are followed on the decided side only - the result flag idiom of a
    helper that reports success, read path sensitively"""
    avoid = set(avoid)
    seen, out = set(), set()
    stack = [(n, frozenset((env or {}).items())) for n in start_ids]
    while stack:
        n, env = stack.pop()
        if (n, env) in seen or n in avoid:
            continue
        seen.add((n, env))
        out.add(n)
        t = cfg.nodes[n]
        a = t.ast
        envd = dict(env)
        known = None
        if t.kind == 'test' and not isinstance(a, ast.stmt):
            known = eval_under(a, envd, None)
        elif isinstance(a, ast.Assign) and t.kind not in ('test',):
            for tg in a.targets:
                for x in ast.walk(tg):
                    if isinstance(x, ast.Name):
                        envd.pop(x.id, None)
            for tg in a.targets:
                for x in ast.walk(tg):
                    if isinstance(x, ast.Name):
                        envd.pop(f'{x.id} is None', None)
            if len(a.targets) == 1 and isinstance(a.targets[0], ast.Name):
                tv = _literal_truth(a.value)
                if tv is not None:
                    envd[a.targets[0].id] = tv
                    envd[f'{a.targets[0].id} is None'] = isinstance(a.value, ast.Constant) and a.value.value is None
                elif isinstance(a.value, ast.Call) and (dotted(a.value.func) or '').rpartition('.')[2].endswith(('Error', 'Exception')):
                    envd[a.targets[0].id] = True          # `error = ConfigError(...)`: an exception object, neither None nor falsy
                    envd[f'{a.targets[0].id} is None'] = False
                elif isinstance(a.value, ast.Name) and a.value.id in env_d0(env):
                    # a copy of a name whose state is known (`failure = e` in `except ... as e`)
                    d0 = env_d0(env)
                    envd[a.targets[0].id] = d0[a.value.id]
                    if f'{a.value.id} is None' in d0:
                        envd[f'{a.targets[0].id} is None'] = d0[f'{a.value.id} is None']
                elif isinstance(a.value, (ast.UnaryOp, ast.BoolOp, ast.Compare, ast.Name)):
                    # a flag computed from flags: `wanted = not repeated`
                    known_ = dict(env)
                    tv = eval_under(a.value, known_, None)
                    if isinstance(tv, bool) and not isinstance(a.value, ast.Name):
                        envd[a.targets[0].id] = tv
                        envd[f'{a.targets[0].id} is None'] = False
            elif len(a.targets) == 1 and isinstance(a.targets[0], ast.Tuple) and isinstance(a.value, ast.Tuple) \
                    and len(a.targets[0].elts) == len(a.value.elts) and not any(isinstance(e, ast.Starred) for e in a.value.elts):
                # `err, accepted = e, False`: the literals among the elements bind their names
                for tg, v in zip(a.targets[0].elts, a.value.elts):
                    tv = _literal_truth(v)
                    if isinstance(tg, ast.Name) and tv is not None:
                        envd[tg.id] = tv
                        envd[f'{tg.id} is None'] = isinstance(v, ast.Constant) and v.value is None
        elif t.kind == 'handler' and isinstance(a, ast.ExceptHandler) and a.name:
            envd[a.name] = True                 # `except E as err:` - err is an exception object
            envd[f'{a.name} is None'] = False
        elif isinstance(a, (ast.AugAssign, ast.For, ast.AsyncFor, ast.With)):
            for x in ast.walk(a.target if hasattr(a, 'target') else a):
                if isinstance(x, ast.Name) and isinstance(x.ctx, ast.Store):
                    envd.pop(x.id, None)
        nenv = frozenset(envd.items())
        for b, lab in cfg.succ[n]:
            if (lab == 'exc' and not exc) or (known is True and lab == 'F') or (known is False and lab == 'T'):
                continue
            stack.append((b, nenv))
    return out


def value_returned_under(cfg, funcnode, assign, name, env):
    """the value bound to the local `name` by statement `assign` is returned although it has the properties fixed in env
    (atoms as for eval_under, e.g. {'ret is None': False, 'callable(ret)': False}): the return statements reached with the
    local still holding that value, following only the sides of tests that env allows while it does.  A re-binding of the
    local ends the tracking; the exception edge of the binding statement itself is left with the old value."""
    start = set(cfg.node_of(assign))
    seen, stack, hits = set(), [], []
    for n in start:
        for b, lab in cfg.succ[n]:
            if lab != 'exc':
                stack.append((b, True))
    while stack:
        n, raw = stack.pop()
        if (n, raw) in seen:
            continue
        seen.add((n, raw))
        t = cfg.nodes[n]
        a = t.ast
        if raw and isinstance(a, ast.Return) and isinstance(a.value, ast.Name) and a.value.id == name:
            hits.append(a)
            continue
        after = raw
        if isinstance(a, (ast.Assign, ast.AugAssign, ast.AnnAssign)) and t.kind not in ('test',):
            tg = a.targets if isinstance(a, ast.Assign) else [a.target]
            if any(isinstance(x, ast.Name) and x.id == name for tt in tg for x in ast.walk(tt)):
                after = n in start
        known = eval_under(a, env, None) if raw and t.kind == 'test' and not isinstance(a, ast.stmt) else None
        for b, lab in cfg.succ[n]:
            if (known is True and lab == 'F') or (known is False and lab == 'T'):
                continue
            stack.append((b, raw if lab == 'exc' else after))
    return hits


def is_copier(m, module, name, _seen=None):
    """`name` is a module level function that hands back copies of what it is given: every return value is `<x>.copy()`, a call
    of the function itself (on elements) or of another copier, or a display / comprehension / tuple() / dict() built from such"""
    _seen = _seen or set()
    fi = m.functions.get(f'{module.name}.{name}')
    if fi is None or fi.cls is not None or fi.qualname in _seen:
        return False
    _seen = _seen | {fi.qualname}
    rets = [r.value for r in body_walk(fi.node) if isinstance(r, ast.Return)]
    if not rets or any(v is None for v in rets):
        return False

    def copying(e):
        if isinstance(e, ast.Call):
            if call_attr(e) == 'copy' and isinstance(e.func, ast.Attribute):
                return True
            if isinstance(e.func, ast.Name) and (e.func.id == name or is_copier(m, module, e.func.id, _seen)):
                return True
            if isinstance(e.func, ast.Name) and e.func.id in ('tuple', 'list', 'dict', 'set') and e.args:
                return copying(e.args[0])
            return False
        if isinstance(e, (ast.GeneratorExp, ast.ListComp, ast.SetComp)):
            return copying(e.elt)
        if isinstance(e, ast.DictComp):
            return copying(e.value)
        if isinstance(e, (ast.Tuple, ast.List)):
            return bool(e.elts) and all(copying(x) for x in e.elts)
        return False
    return all(copying(v) for v in rets)


def resolved(expr, funcnode, depth=4):
    """copy of expr in which every local that is bound exactly once in funcnode (a plain assignment) is replaced by the
    expression it was bound to: `frame = x.encode(); return frame + EOL` reads as `x.encode() + EOL`"""
    from sa.model import _clone_ast

    class Sub(ast.NodeTransformer):
        def __init__(self, d):
            self.d = d

        def visit_Name(self, node):
            if isinstance(node.ctx, ast.Load) and self.d > 0:
                las = local_assigns(funcnode, node.id)
                if len(las) == 1 and las[0][2] == 'assign' and las[0][0] is not None:
                    return Sub(self.d - 1).visit(_clone_ast(las[0][0]))
                if len(las) == 1 and las[0][2] == 'unpack' and isinstance(las[0][0], (ast.Name, ast.Attribute)) and isinstance(las[0][1], ast.Assign):
                    # `_, event, _ = entry`: the element of the sequence at that position
                    t = las[0][1].targets[0]
                    if isinstance(t, (ast.Tuple, ast.List)) and not any(isinstance(e, ast.Starred) for e in t.elts) and \
                            (not isinstance(las[0][0], ast.Name) or node.id != las[0][0].id):
                        idx = next((i for i, e in enumerate(t.elts) if isinstance(e, ast.Name) and e.id == node.id), None)
                        if idx is not None:
                            sub = ast.Subscript(value=_clone_ast(las[0][0]), slice=ast.Constant(value=idx), ctx=ast.Load())
                            return ast.fix_missing_locations(ast.copy_location(sub, node))
            return node

        def visit_IfExp(self, node):
            self.generic_visit(node)
            if isinstance(node.test, ast.Constant):       # `a if False else b` (a substituted keyword default)
                return node.body if node.test.value else node.orelse
            return node
    return Sub(depth).visit(_clone_ast(expr))


def received_bytes_lost(cfg, funcnode, sink, is_source, initial=()):
    """conservation of received data: a local that holds bytes taken from a source call (`data = self.recv()`) - or a local
    buffer such bytes were appended to - must be handed on before the function ends: appended / assigned to the persistent
    buffer `sink` (an attribute expression given as source text), moved into another local (which then carries the duty),
    returned, or shown empty by a test.  -> [(exit statement ast | None, sorted names still holding data)] for every way out
    of the function (return, raise, falling off the end) that is reached with such a local.  Exceptions raised by calls are
    not followed (a failing recv ends the connection), explicit raise statements are."""
    def loads(e):
        return {n.id for n in ast.walk(e) if isinstance(n, ast.Name) and isinstance(n.ctx, ast.Load)} if e is not None else set()

    def targets(st):
        ts = st.targets if isinstance(st, ast.Assign) else [st.target]
        names, to_sink = set(), False
        for t in ts:
            for x in ast.walk(t):
                if isinstance(x, ast.Name) and isinstance(x.ctx, ast.Store):
                    names.add(x.id)
                if isinstance(x, ast.Attribute) and (sink(src(x)) if callable(sink) else src(x) == sink):
                    to_sink = True
        return names, to_sink

    def transfer(node, state):
        st = node.ast
        if node.kind == 'test' or st is None:
            return state
        state = set(state)
        if isinstance(st, (ast.Assign, ast.AugAssign, ast.AnnAssign)) and st.value is not None:
            used = loads(st.value) & state
            names, to_sink = targets(st)
            if isinstance(st.value, ast.Call) and is_source(st.value):
                state -= used
                state |= names
            elif used and (isinstance(st.value, (ast.Compare, ast.BoolOp)) or (isinstance(st.value, ast.UnaryOp) and isinstance(st.value.op, ast.Not))):
                state -= names                       # a truth value computed from the data (`expired = ... and eol not in buffer`) carries no bytes
            elif used:
                state -= used
                if not to_sink:
                    state |= names
                elif isinstance(st, ast.Assign) and any(isinstance(t, (ast.Tuple, ast.List)) for t in st.targets):
                    state |= {n for n in names}      # `line, self._rxbuffer = parts`: line carries the other part
                # (`self._rxbuffer = buffer = buffer + data`: every target gets the same value, it is in the persistent buffer now)
            elif isinstance(st, ast.Assign):
                state -= names                       # re-bound to something else
        elif isinstance(st, ast.Return):
            state -= loads(st.value)
        elif isinstance(st, ast.Expr):
            # handed to a call (`self._store(data)`) - the callee takes the duty
            state -= loads(st.value)
        return frozenset(state)

    def falsy_on(test, label):
        out = set()
        for a, tv in facts_on_side(test, label == 'T'):
            if isinstance(a, ast.Name) and not tv:
                out.add(a.id)
            if isinstance(a, ast.Compare) and len(a.ops) == 1 and isinstance(a.left, ast.Name) and isinstance(a.comparators[0], ast.Constant) \
                    and a.comparators[0].value in (b'', '', None) and ((isinstance(a.ops[0], (ast.Eq, ast.Is)) and tv) or (isinstance(a.ops[0], (ast.NotEq, ast.IsNot)) and not tv)):
                out.add(a.left.id)
        return out

    work = [(cfg.entry, frozenset(initial))]
    seen = set()
    lost = {}
    while work:
        nid, state = work.pop()
        if (nid, state) in seen:
            continue
        seen.add((nid, state))
        node = cfg.nodes[nid]
        out = transfer(node, state)
        for b, lab in cfg.succ[nid]:
            if lab == 'exc' and not isinstance(node.ast, ast.Raise):
                continue
            o = out
            if node.kind == 'test' and lab in ('T', 'F') and isinstance(node.ast, ast.expr):
                o = frozenset(set(out) - falsy_on(node.ast, lab))
            if b == cfg.exit:
                if o:
                    key = id(node.ast)
                    lost.setdefault(key, (node.ast, set()))[1].update(o)
                continue
            work.append((b, o))
    return [(a, sorted(names)) for a, names in lost.values()]


# every public helper of this module is available through `from sa.lib import *`
__all__ = sorted(set(__all__) | {k for k, v in list(globals().items())
                                 if not k.startswith('_') and getattr(v, '__module__', None) == __name__})
