"""Small forward dataflow / typestate framework over sa.cfg.CFG.

State = dict var -> value (any hashable); join is pointwise with a user supplied binary join; a missing
var means 'bottom / not yet defined' and is ignored by the join.  The transfer functions see the CFG
node (with its ast) and the edge label, which gives branch sensitivity for guards.
"""
import ast

from sa.model import dotted, src


def freeze(d):
    return tuple(sorted(d.items()))


def forward(cfg, init, transfer, edge_transfer=None, join=None, max_iter=20000):
    """returns (in_states, out_states): node id -> dict.
    transfer(node, state) -> state after the node executed normally
    edge_transfer(node, label, in_state, out_state) -> state along that edge (default: out_state for
        normal edges, in_state for 'exc' edges - the statement did not complete)"""
    if join is None:
        def join(a, b):
            return a if a == b else None
    ins = {cfg.entry: dict(init)}
    outs = {}
    work = [cfg.entry]
    it = 0
    while work:
        it += 1
        if it > max_iter:
            raise RuntimeError('typestate: no fixpoint')
        n = work.pop()
        node = cfg.nodes[n]
        sin = ins.get(n, {})
        sout = transfer(node, dict(sin))
        outs[n] = sout
        for b, label in cfg.succ[n]:
            if edge_transfer is not None:
                s = edge_transfer(node, label, sin, sout)
            else:
                s = sin if label == 'exc' else sout
            if s is None:
                continue   # infeasible edge
            old = ins.get(b)
            if old is None:
                ins[b] = dict(s)
                work.append(b)
            else:
                new = dict(old)
                changed = False
                for k, v in s.items():
                    if k not in new:
                        new[k] = v
                        changed = True
                    elif new[k] != v:
                        j = join(new[k], v)
                        if j != new[k]:
                            new[k] = j
                            changed = True
                if changed:
                    ins[b] = new
                    work.append(b)
    return ins, outs


# ------------------------------------------------------------------ guard analysis

def isinstance_facts(test, positive=True):
    """facts established when `test` evaluates to `positive`:
    list of (expr_src, kinds tuple, is_instance: bool).  Handles not / and / or conservatively."""
    if isinstance(test, ast.UnaryOp) and isinstance(test.op, ast.Not):
        return isinstance_facts(test.operand, not positive)
    if isinstance(test, ast.BoolOp):
        if isinstance(test.op, ast.And) and positive:
            return [f for v in test.values for f in isinstance_facts(v, True)]
        if isinstance(test.op, ast.Or) and not positive:
            return [f for v in test.values for f in isinstance_facts(v, False)]
        return []
    if isinstance(test, ast.Call) and dotted(test.func) == 'isinstance' and len(test.args) == 2:
        kinds = test.args[1].elts if isinstance(test.args[1], ast.Tuple) else [test.args[1]]
        names = tuple(dotted(k) or src(k) for k in kinds)
        return [(src(test.args[0]), names, positive)]
    return []


def forward_paths(cfg, init_states, transfer, edge_transfer=None, max_states=5000):
    """path-sensitive (powerset) variant: every node keeps the SET of abstract states that may arrive,
    states are never merged.  States must be hashable (use tuples / frozensets of items).
    transfer(node, state) -> state ; edge_transfer(node, label, state_in, state_out) -> state | None (infeasible)
    Returns ins: node id -> set of states."""
    ins = {cfg.entry: set(init_states)}
    work = [(cfg.entry, s) for s in init_states]
    n_states = 0
    while work:
        n, s = work.pop()
        node = cfg.nodes[n]
        sout = transfer(node, s)
        for b, label in cfg.succ[n]:
            if edge_transfer is not None:
                s2 = edge_transfer(node, label, s, sout)
            else:
                s2 = s if label == 'exc' else sout
            if s2 is None:
                continue
            bucket = ins.setdefault(b, set())
            if s2 not in bucket:
                bucket.add(s2)
                n_states += 1
                if n_states > max_states:
                    raise RuntimeError('forward_paths: state explosion')
                work.append((b, s2))
    return ins


def sdict(state):
    return dict(state)


def sfreeze(d):
    return tuple(sorted(d.items()))
