"""Mini-lint cross-reference (thorough tier, evidence only - never a violation by itself):
never-read locals that shadow an attribute of the same name, and loop variables used after their loop.
On the pinned tree these were exactly the sites that C16.R3 / C16.R2 then decide properly."""
import ast
import json
import os

from sa.model import body_walk, dotted


def lint_function(fi):
    out = []
    node = fi.node
    stores, loads = {}, set()
    attr_reads = set()
    for n in body_walk(node):
        if isinstance(n, ast.Name):
            if isinstance(n.ctx, ast.Store):
                stores.setdefault(n.id, []).append(n)
            else:
                loads.add(n.id)
        if isinstance(n, ast.Attribute) and isinstance(n.ctx, ast.Load) and dotted(n.value) == 'self':
            attr_reads.add(n.attr)
    # nested functions may read the local
    for n in ast.walk(node):
        if isinstance(n, ast.Name) and isinstance(n.ctx, ast.Load):
            loads.add(n.id)
    for name, ss in stores.items():
        if name not in loads and not name.startswith('_') or (name not in loads and name in attr_reads):
            if name in attr_reads:
                out.append({'kind': 'never-read local shadows self.' + name, 'function': fi.qualname, 'line': ss[0].lineno})
    # loop variable used after the loop
    for n in body_walk(node):
        if isinstance(n, ast.For):
            tv = {x.id for x in ast.walk(n.target) if isinstance(x, ast.Name)}
            par = getattr(n, 'parent', None)
            for field in ('body', 'orelse', 'finalbody'):
                lst = getattr(par, field, None)
                if isinstance(lst, list) and n in lst:
                    after = lst[lst.index(n) + 1:]
                    for st in after:
                        redefined = set()
                        for x in ast.walk(st):
                            if isinstance(x, ast.Name) and isinstance(x.ctx, ast.Store):
                                redefined.add(x.id)
                            if isinstance(x, ast.Name) and isinstance(x.ctx, ast.Load) and x.id in tv and x.id not in redefined:
                                out.append({'kind': f'loop variable `{x.id}` used after its loop', 'function': fi.qualname, 'line': x.lineno})
                                tv = tv - {x.id}
    return out


def lint_files(m, relpaths):
    res = []
    rel = set(relpaths)
    for q, fi in m.functions.items():
        if fi.module.relpath in rel:
            res.extend(lint_function(fi))
    return res


def anchor_files(verif, prop):
    try:
        for line in open(os.path.join(verif, 'properties.jsonl'), encoding='utf-8'):
            p = json.loads(line)
            if p['id'] == prop:
                return p['anchors']['files']
    except OSError:
        pass
    return []
