"""Static-analysis engine for the frappy verification task (stdlib only).

Nothing in this package imports or executes code from /repo; every run parses the
working tree afresh.
"""
