#!/venv/bin/python
"""maintenance helper: run all quick checks against behaviour-preserving refactoring patches; any non-zero exit is a
false alarm (exit 1) or a brittle anchor (exit 2) of the machinery.  usage: tools_refactor_eval.py <dir with P*.diff> ..."""
import glob, os, subprocess, sys
def sh(c): return subprocess.run(c, shell=True, capture_output=True, text=True)
bad = 0
for d in sys.argv[1:]:
    for patch in sorted(glob.glob(os.path.join(d, 'P*.diff'))):
        assert sh('git -C /repo status --porcelain').stdout.strip() == '', 'repo not clean'
        r = sh(f'git -C /repo apply {patch}')
        if r.returncode:
            print('APPLY FAILED', patch, r.stderr.strip()[:200]); continue
        try:
            suite = sh('/verif/tools_run_suite.sh | tail -1').stdout.strip()
            base = '301 passed' in suite and '7 failed' in suite and '1 error' in suite
            res = []
            for i in range(1, 21):
                p = f'C{i:02d}'
                c = sh(f'VERIF_NO_EVIDENCE=1 /venv/bin/python /verif/check {p}')
                if c.returncode != 0:
                    lines = [l.strip()[:230] for l in c.stdout.splitlines() if l.startswith('  C') or l.startswith('ANALYSIS')]
                    res.append((p, c.returncode, lines[:3]))
        finally:
            sh('git -C /repo checkout -- .')
        print(os.path.basename(d), os.path.basename(patch), 'suite-baseline' if base else 'SUITE CHANGED: ' + suite, 'CLEAN' if not res else 'ALARMS')
        for x in res:
            bad += 1
            print('    ', x)
print('alarms:', bad)
