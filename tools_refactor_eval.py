#!/venv/bin/python
"""maintenance helper: run all quick checks against behaviour-preserving refactoring patches; any non-zero exit is a
false alarm (exit 1) or a brittle anchor (exit 2) of the machinery.  Every patch is applied to its own scratch export
of /repo's HEAD (git archive, under $TMPDIR, removed afterwards), 8 in parallel; the pinned suite runs there too.
usage: tools_refactor_eval.py [--nosuite] <dir with P*.diff> ..."""
import glob, os, shutil, subprocess, sys, tempfile
from concurrent.futures import ThreadPoolExecutor


def sh(c, **kw):
    return subprocess.run(c, shell=True, capture_output=True, text=True, **kw)


args = sys.argv[1:]
nosuite = '--nosuite' in args
dirs = [a for a in args if a != '--nosuite']
patches = [os.path.abspath(p) for d in dirs for p in sorted(glob.glob(os.path.join(d, '*.diff')))]


def one(patch):
    base = tempfile.mkdtemp(prefix='refac-eval-')
    try:
        sh(f'git -C /repo archive HEAD | tar -x -C {base}')
        r = sh(f'patch -p1 -s -f --no-backup-if-mismatch -i {patch}', cwd=base)
        if r.returncode:
            return patch, 'APPLY FAILED ' + r.stdout[:200], []
        suite = 'not run'
        if not nosuite:
            suite = sh(f'/verif/tools_run_suite.sh {base} | tail -1').stdout.strip()
            suite = 'suite-baseline' if ('301 passed' in suite and '7 failed' in suite and '1 error' in suite) else 'SUITE CHANGED: ' + suite
        res = []
        for i in range(1, 21):
            p = f'C{i:02d}'
            c = sh(f'VERIF_REPO={base} VERIF_NO_EVIDENCE=1 VERIF_NO_SELFTEST=1 /venv/bin/python /verif/check {p}')
            if c.returncode != 0:
                lines = [l.strip()[:230] for l in c.stdout.splitlines() if l.startswith('  C') or l.startswith('ANALYSIS')]
                res.append((p, c.returncode, lines[:3]))
        return patch, suite, res
    finally:
        shutil.rmtree(base, ignore_errors=True)


bad = 0
with ThreadPoolExecutor(max_workers=8) as ex:
    for patch, suite, res in ex.map(one, patches):
        print(os.path.basename(os.path.dirname(os.path.dirname(patch))) if patch.endswith('.diff') and '/out/' in patch else '', os.path.basename(patch), suite,
              'CLEAN' if not res else 'ALARMS')
        for x in res:
            bad += 1
            print('    ', x)
print('alarms:', bad)
